"""C09 — channel descriptions and their application to a density tensor, for ALL parameter values and ALL input states.

Deductive (trigpoly).  Probabilities are written p = sin(t)**2 with t in [0, pi/2] (every p in [0, 1] is of that form), several
probabilities that must sum to at most one in hyperspherical form; sqrt(p) is then sin t (trigpoly UNIT_ROOTS: c*b**2 with b a
registered [0,1]-valued product has the root sqrt(c)*b, and lies in [0,1] for c <= 1 — the only order facts the engine uses).
The REAL `_kraus_` / `_mixture_` code, the REAL `cirq.kraus`, `cirq.mixture`, `kraus_to_superoperator`, `kraus_to_choi`,
`superoperator_to_choi`, `choi_to_superoperator` and the REAL `cirq.apply_channel` strategy chain / `_BufferedDensityMatrix.
apply_channel` run on these values and on a density tensor whose entries are independent atoms (the maps are linear in rho, so
distinct atoms never merge); buffers are pre-filled with junk atoms so that reading an uninitialised buffer shows.  Results are
compared, as exact polynomial identities, with the textbook channel: sum_K K rho K^dagger for the Kraus operators written in the
class docstrings (below, independent of the code)."""
import itertools
import time
from fractions import Fraction

import numpy as np

from pyvc import api, paths, trigpoly
from pyvc.trigpoly import Angle, TrigPoly
from contracts.C03_gates import _rep, _Generic
from contracts import gate_specs as gs

O = lambda rows: np.array(rows, dtype=object)
I2, X, Z = O([[1, 0], [0, 1]]), O([[0, 1], [1, 0]]), O([[1, 0], [0, -1]])
Y = O([[0, TrigPoly.const(-1j)], [TrigPoly.const(1j), 0]])


def _scale(M, f):
    out = np.empty(M.shape, dtype=object)
    for idx in np.ndindex(M.shape):
        out[idx] = trigpoly._lift(M[idx]) * f
    return out


def _ang(name):
    a = Angle.sym(name)
    return a.sin(), a.cos()


class Fam:
    def __init__(self, name, key, angles, roots, make, spec_kraus, boundary=None):
        self.name, self.key, self.angles, self.roots, self.make, self.spec_kraus, self.boundary = name, key, angles, roots, make, spec_kraus, boundary or []


def families():
    import cirq

    F = "cirq-core/cirq/ops/common_channels.py"
    s, c = _ang("t")
    sg, cg = _ang("g")
    sa, ca = _ang("a")
    sb, cb = _ang("b")
    sc, cc = _ang("c")
    s3 = trigpoly._const_sqrt(Fraction(1, 3))
    out = []
    out.append(Fam("bit_flip", f"{F}:BitFlipChannel", ["t"], [s, c], lambda: cirq.bit_flip(s * s), lambda: [_scale(I2, c), _scale(X, s)],
                   boundary=[("p=0", lambda: cirq.bit_flip(0.0), lambda: [I2]), ("p=1", lambda: cirq.bit_flip(1.0), lambda: [X])]))
    out.append(Fam("phase_flip", f"{F}:PhaseFlipChannel", ["t"], [s, c], lambda: cirq.phase_flip(s * s), lambda: [_scale(I2, c), _scale(Z, s)],
                   boundary=[("p=0", lambda: cirq.phase_flip(0.0), lambda: [I2]), ("p=1", lambda: cirq.phase_flip(1.0), lambda: [Z])]))
    out.append(Fam("depolarize", f"{F}:DepolarizingChannel", ["t"], [s, c], lambda: cirq.depolarize(s * s),
                   lambda: [_scale(I2, c), _scale(X, s * s3), _scale(Y, s * s3), _scale(Z, s * s3)]))
    px, py, pz = (sa * cb) * (sa * cb), (sa * sb * cc) * (sa * sb * cc), (sa * sb * sc) * (sa * sb * sc)
    out.append(Fam("asymmetric_depolarize", f"{F}:AsymmetricDepolarizingChannel", ["a", "b", "c"], [sa, ca, sa * cb, sa * sb * cc, sa * sb * sc],
                   lambda: cirq.asymmetric_depolarize(px, py, pz),
                   lambda: [_scale(I2, ca), _scale(X, sa * cb), _scale(Y, sa * sb * cc), _scale(Z, sa * sb * sc)]))
    out.append(Fam("asymmetric_depolarize(error_probabilities={Z: p})", f"{F}:AsymmetricDepolarizingChannel", ["t"], [s, c],
                   lambda: cirq.asymmetric_depolarize(error_probabilities={"Z": s * s}), lambda: [_scale(I2, c), _scale(Z, s)]))
    out.append(Fam("asymmetric_depolarize(error_probabilities={Y: px, X: py}) [unsorted keys, implied identity]", f"{F}:AsymmetricDepolarizingChannel", ["a", "b"], [sa, ca, sa * cb, sa * sb],
                   lambda: cirq.asymmetric_depolarize(error_probabilities={"Y": (sa * cb) * (sa * cb), "X": (sa * sb) * (sa * sb)}),
                   lambda: [_scale(I2, ca), _scale(Y, sa * cb), _scale(X, sa * sb)]))
    P0, P1, L01, L10 = O([[1, 0], [0, 0]]), O([[0, 0], [0, 1]]), O([[0, 1], [0, 0]]), O([[0, 0], [1, 0]])
    out.append(Fam("amplitude_damp", f"{F}:AmplitudeDampingChannel", ["g"], [sg, cg], lambda: cirq.amplitude_damp(sg * sg),
                   lambda: [O([[1, 0], [0, cg]]), O([[0, sg], [0, 0]])],
                   boundary=[("gamma=0", lambda: cirq.amplitude_damp(0), lambda: [I2]), ("gamma=1", lambda: cirq.amplitude_damp(1), lambda: [P0, L01]),
                             ("gamma=1.0", lambda: cirq.amplitude_damp(1.0), lambda: [P0, L01])]))
    out.append(Fam("generalized_amplitude_damp", f"{F}:GeneralizedAmplitudeDampingChannel", ["t", "g"], [s, c, sg, cg],
                   lambda: cirq.generalized_amplitude_damp(s * s, sg * sg),
                   lambda: [_scale(O([[1, 0], [0, cg]]), s), _scale(O([[0, sg], [0, 0]]), s), _scale(O([[cg, 0], [0, 1]]), c), _scale(O([[0, 0], [sg, 0]]), c)],
                   # full damping is a reset only for p = 1: for p < 1 the state becomes p |0><0| + (1 - p) |1><1|
                   boundary=[("gamma=1, all p", lambda: cirq.generalized_amplitude_damp(s * s, 1.0), lambda: [_scale(P0, s), _scale(L01, s), _scale(P1, c), _scale(L10, c)]),
                             ("gamma=1 (int), all p", lambda: cirq.generalized_amplitude_damp(s * s, 1), lambda: [_scale(P0, s), _scale(L01, s), _scale(P1, c), _scale(L10, c)]),
                             ("gamma=0, all p", lambda: cirq.generalized_amplitude_damp(s * s, 0.0), lambda: [I2]),
                             ("p=1, all gamma", lambda: cirq.generalized_amplitude_damp(1.0, sg * sg), lambda: [O([[1, 0], [0, cg]]), O([[0, sg], [0, 0]])]),
                             ("p=0, all gamma", lambda: cirq.generalized_amplitude_damp(0.0, sg * sg), lambda: [O([[cg, 0], [0, 1]]), O([[0, 0], [sg, 0]])]),
                             ("p=1, gamma=1", lambda: cirq.generalized_amplitude_damp(1.0, 1.0), lambda: [P0, L01]), ("p=0, gamma=1", lambda: cirq.generalized_amplitude_damp(0.0, 1.0), lambda: [P1, L10])]))
    out.append(Fam("phase_damp", f"{F}:PhaseDampingChannel", ["g"], [sg, cg], lambda: cirq.phase_damp(sg * sg),
                   lambda: [O([[1, 0], [0, cg]]), O([[0, 0], [0, sg]])],
                   boundary=[("gamma=0", lambda: cirq.phase_damp(0), lambda: [I2]), ("gamma=1", lambda: cirq.phase_damp(1), lambda: [O([[1, 0], [0, 0]]), O([[0, 0], [0, 1]])])]))
    out.append(Fam("reset", f"{F}:ResetChannel", [], [], lambda: cirq.ResetChannel(), lambda: [O([[1, 0], [0, 0]]), O([[0, 1], [0, 0]])]))
    return out


# ---- textbook definitions (independent of the code) ------------------------------------------------------------------------
def spec_superoperator(ks):
    """S[(a,b),(c,d)] = sum_K K[a,c] conj(K[b,d])  (row-major vec: vec(K rho K^dagger) = S vec(rho))"""
    d = ks[0].shape[0]
    S = np.empty((d * d, d * d), dtype=object)
    for a, b, c, dd in itertools.product(range(d), repeat=4):
        acc = TrigPoly()
        for K in ks:
            acc = acc + trigpoly._lift(K[a, c]) * trigpoly._lift(K[b, dd]).conjugate()
        S[a * d + b, c * d + dd] = acc
    return S


def spec_choi(ks):
    """J[(a,c),(b,d)] = sum_K K[a,c] conj(K[b,d])  (= sum_K vec(K) vec(K)^dagger)"""
    d = ks[0].shape[0]
    J = np.empty((d * d, d * d), dtype=object)
    for a, b, c, dd in itertools.product(range(d), repeat=4):
        acc = TrigPoly()
        for K in ks:
            acc = acc + trigpoly._lift(K[a, c]) * trigpoly._lift(K[b, dd]).conjugate()
        J[a * d + c, b * d + dd] = acc
    return J


def _conj(M):
    out = np.empty(M.shape, dtype=object)
    for idx in np.ndindex(M.shape):
        out[idx] = trigpoly._lift(M[idx]).conjugate()
    return out


def spec_apply(ks, rho, left, right):
    """sum_K K rho K^dagger with K acting on the given left axes (and conj(K) on the right axes) of the density tensor"""
    k = len(left)
    tot = None
    for K in ks:
        Kt = np.asarray(K, dtype=object).reshape((2,) * (2 * k))
        t = np.tensordot(Kt, rho, axes=(list(range(k, 2 * k)), list(left)))
        t = np.moveaxis(t, list(range(k)), list(left))
        t = np.tensordot(_conj(Kt), t, axes=(list(range(k, 2 * k)), list(right)))
        t = np.moveaxis(t, list(range(k)), list(right))
        tot = t if tot is None else tot + t
    return tot


def sym_rho(n, tag="r"):
    """density tensor of n qubits with independent atoms as entries (no Hermiticity assumed: more general)"""
    shape = (2,) * (2 * n)
    rho = np.empty(shape, dtype=object)
    for idx in np.ndindex(shape):
        rho[idx] = TrigPoly.atom(tag + "".join(map(str, idx)))
    return rho


def junk(shape, tag):
    out = np.empty(shape, dtype=object)
    for idx in np.ndindex(shape):
        out[idx] = TrigPoly.atom(tag + "".join(map(str, idx)))
    return out


def tensors_equal(A, B):
    A, B = np.asarray(A, dtype=object), np.asarray(B, dtype=object)
    if A.shape != B.shape:
        return False, f"shape {A.shape} vs {B.shape}"
    for idx in np.ndindex(A.shape):
        a, b = trigpoly._lift(A[idx]), trigpoly._lift(B[idx])
        if a is NotImplemented or b is NotImplemented or not a.same(b):
            return False, f"entry {idx}: got {A[idx]!r}, textbook {B[idx]!r}"
    return True, ""


class _ProbCtx(_Generic):
    """generic outcomes for tests on probabilities: strictly inside the simplex (sum of the listed probabilities < 1 - tol)"""

    def decide_poly_order(self, a, b, opname):
        return opname in ("lt", "le")


def _ob(name, fn, roots, case=None):
    t0 = time.time()
    trigpoly.UNIT_ROOTS[:] = roots
    trigpoly.CTX = _ProbCtx()
    try:
        ok, detail = fn()
        st = "proved" if ok else "failed"
    except Exception as e:  # engine limit: not a verdict
        st, detail = "error", f"{type(e).__name__}: {e}"
    finally:
        trigpoly.UNIT_ROOTS[:] = []
        trigpoly.CTX = None
    o = paths.Obligation(name, "engine", st, (time.time() - t0) * 1e3, "trigpoly", detail=detail)
    o.case = case
    return o


def check_descriptions():
    import cirq

    reps = []
    for fam in families():
        obls = []
        variants = [("all parameters", fam.make, fam.spec_kraus)] + [(lab, mk, sp) for lab, mk, sp in fam.boundary]
        for lab, mk, sp in variants:
            pre = f"C09/{fam.key}#"
            tag = f"[{fam.name}; {lab}]"

            def f_tp(mk=mk):
                ks = [np.asarray(k, dtype=object) for k in cirq.kraus(mk())]
                d = ks[0].shape[0]
                tot = sum(gs._mm(_conj(k).T, k) for k in ks)
                return tensors_equal(tot, O([[1 if i == j else 0 for j in range(d)] for i in range(d)]))
            obls.append(_ob(pre + "kraus-trace-preserving" + tag, f_tp, fam.roots, fam.name))

            def f_super(mk=mk, sp=sp):
                ks = [np.asarray(k, dtype=object) for k in cirq.kraus(mk())]
                return tensors_equal(spec_superoperator(ks), spec_superoperator(sp()))
            obls.append(_ob(pre + "kraus-is-the-documented-map" + tag, f_super, fam.roots, fam.name))

            def f_conv(mk=mk, sp=sp):
                ch = mk()
                ks = [np.asarray(k, dtype=object) for k in cirq.kraus(ch)]
                S = cirq.kraus_to_superoperator(ks)
                ok, d = tensors_equal(S, spec_superoperator(sp()))
                if not ok:
                    return ok, "kraus_to_superoperator: " + d
                J = cirq.kraus_to_choi(ks)
                ok, d = tensors_equal(J, spec_choi(sp()))
                if not ok:
                    return ok, "kraus_to_choi: " + d
                ok, d = tensors_equal(cirq.superoperator_to_choi(S), J)
                if not ok:
                    return ok, "superoperator_to_choi(kraus_to_superoperator) != kraus_to_choi: " + d
                ok, d = tensors_equal(cirq.operation_to_superoperator(ch), S)
                if not ok:
                    return ok, "operation_to_superoperator: " + d
                return tensors_equal(cirq.operation_to_choi(ch), J)
            obls.append(_ob(pre + "superoperator-and-choi-conversions" + tag, f_conv, fam.roots, fam.name))

            def f_mix(mk=mk, sp=sp):
                ch = mk()
                if not cirq.has_mixture(ch):
                    return True, ""
                mix = cirq.mixture(ch)
                tot = TrigPoly()
                for p, _ in mix:
                    tot = tot + trigpoly._lift(p)
                if not tot.same(TrigPoly.const(1)):
                    return False, f"mixture probabilities sum to {tot!r}"
                d = np.asarray(mix[0][1]).shape[0]
                S = None
                for p, u in mix:
                    u = np.asarray(u, dtype=object)
                    ok, det = tensors_equal(gs._mm(_conj(u).T, u), O([[1 if i == j else 0 for j in range(d)] for i in range(d)]))
                    if not ok:
                        return False, "mixture component is not unitary: " + det
                    term = _scale(spec_superoperator([u]), trigpoly._lift(p))
                    S = term if S is None else S + term
                return tensors_equal(S, spec_superoperator(sp()))
            obls.append(_ob(pre + "mixture-is-the-documented-map" + tag, f_mix, fam.roots, fam.name))
        reps.append(_rep(fam.key, obls, "C09"))
    return reps


def _real_apply_channel(ch, rho, left, right):
    import cirq

    args = cirq.ApplyChannelArgs(target_tensor=rho.copy(), out_buffer=junk(rho.shape, "jo"), auxiliary_buffer0=junk(rho.shape, "ja"),
                                 auxiliary_buffer1=junk(rho.shape, "jb"), left_axes=list(left), right_axes=list(right))
    return cirq.apply_channel(ch, args, default=None)


def _unitary_cases():
    import cirq

    e = Angle.sym("e")
    return [("XPowGate", lambda: cirq.X ** e, lambda: [gs.x_pow(e)], 1), ("YPowGate", lambda: cirq.Y ** e, lambda: [gs.y_pow(e)], 1),
            ("ZPowGate", lambda: cirq.Z ** e, lambda: [gs.z_pow(e)], 1), ("HPowGate", lambda: cirq.H ** e, lambda: [gs.h_pow(e)], 1),
            ("CZPowGate", lambda: cirq.CZ ** e, lambda: [gs.cz_pow(e)], 2), ("CXPowGate", lambda: cirq.CNOT ** e, lambda: [gs.cx_pow(e)], 2),
            ("ISwapPowGate", lambda: cirq.ISWAP ** e, lambda: [gs.iswap_pow(e)], 2), ("SwapPowGate", lambda: cirq.SWAP ** e, lambda: [gs.swap_pow(e)], 2)]


def check_apply_channel():
    """the strategy chain of cirq.apply_channel on a symbolic 2-qubit density tensor: every target placement"""
    import cirq

    key = "cirq-core/cirq/protocols/apply_channel_protocol.py:apply_channel"
    obls = []
    rho = sym_rho(2)
    for fam in families():
        for lab, mk, sp in [("all parameters", fam.make, fam.spec_kraus)] + list(fam.boundary):
            for axis in (0, 1):
                def f(mk=mk, sp=sp, axis=axis):
                    got = _real_apply_channel(mk(), rho, [axis], [axis + 2])
                    if got is None:
                        return False, "apply_channel returned no result"
                    return tensors_equal(got, spec_apply(sp(), rho, [axis], [axis + 2]))
                obls.append(_ob(f"C09/{key}#apply_channel-is-sum-K-rho-Kdagger[{fam.name}; {lab}; qubit axis {axis} of 2]", f, fam.roots, fam.name))
    for name, mk, sp, k in _unitary_cases():
        for left in ([(0,), (1,)] if k == 1 else [(0, 1), (1, 0)]):
            def f(mk=mk, sp=sp, left=left):
                right = [a + 2 for a in left]
                got = _real_apply_channel(mk(), rho, list(left), right)
                if got is None:
                    return False, "apply_channel returned no result"
                return tensors_equal(got, spec_apply(sp(), rho, list(left), right))
            obls.append(_ob(f"C09/{key}#apply_channel-is-U-rho-Udagger[{name}**e; axes {left} of 2]", f, [], name))
    # a two-qubit Kraus channel (einsum path): independent single-qubit channels as one KrausChannel-like value
    s, c = _ang("t")

    class TwoQubitKraus:
        def _num_qubits_(self):
            return 2

        def _kraus_(self):
            return [np.kron(np.asarray(a, dtype=object), np.asarray(b, dtype=object)) for a in (_scale(I2, c), _scale(X, s)) for b in (O([[1, 0], [0, c]]), O([[0, s], [0, 0]]))]

        def _has_kraus_(self):
            return True

    rho3 = sym_rho(3)
    for left in [(0, 1), (1, 0), (0, 2), (2, 1)]:
        def f(left=left):
            right = [a + 3 for a in left]
            ch = TwoQubitKraus()
            got = _real_apply_channel(ch, rho3, list(left), right)
            return tensors_equal(got, spec_apply(ch._kraus_(), rho3, list(left), right))
        obls.append(_ob(f"C09/{key}#apply_channel-is-sum-K-rho-Kdagger[bit_flip (x) amplitude_damp as one two-qubit Kraus channel; axes {left} of 3]", f, [s, c], "two-qubit kraus"))
    return [_rep(key, obls, "C09")]


def check_buffered_density_matrix():
    """_BufferedDensityMatrix.apply_channel: buffer rotation over a sequence of channels (stale-buffer reuse would show)"""
    import cirq
    from cirq.sim.density_matrix_simulation_state import _BufferedDensityMatrix

    key = "cirq-core/cirq/sim/density_matrix_simulation_state.py:_BufferedDensityMatrix.apply_channel"
    fams = {f.name: f for f in families()}
    e = Angle.sym("e")
    seqs = [
        [("amplitude_damp", 0), ("bit_flip", 1), ("phase_damp", 0), ("reset", 1)],
        [("reset", 0), ("reset", 0), ("depolarize", 1), ("amplitude_damp", 1)],
        [("X**e", 0), ("amplitude_damp", 0), ("CZ**e", (0, 1)), ("phase_flip", 1), ("X**e", 1)],
        [("generalized_amplitude_damp", 1), ("CZ**e", (1, 0)), ("bit_flip", 0)],
    ]
    class _InPlaceZ(cirq.Gate):
        """a channel that applies itself in place and returns the target tensor (which the apply_channel protocol allows): rho -> Z rho Z"""

        def _num_qubits_(self):
            return 1

        def _apply_channel_(self, args):
            for ax in (args.left_axes[0], args.right_axes[0]):
                idx = [slice(None)] * args.target_tensor.ndim
                idx[ax] = 1
                args.target_tensor[tuple(idx)] = args.target_tensor[tuple(idx)] * -1
            return args.target_tensor

    seqs += [
        [("in-place Z", 0), ("amplitude_damp", 0), ("bit_flip", 1)],
        [("amplitude_damp", 1), ("in-place Z", 1), ("in-place Z", 0), ("reset", 1), ("depolarize", 0)],
        [("phase_damp(0)", 0), ("amplitude_damp", 0), ("phase_damp(0)", 1), ("phase_flip", 1)],
    ]
    Zm = [[1, 0], [0, -1]]
    Im = [[1, 0], [0, 1]]
    unit = {"X**e": (lambda: cirq.X ** e, lambda: [gs.x_pow(e)]), "CZ**e": (lambda: cirq.CZ ** e, lambda: [gs.cz_pow(e)]),
            "in-place Z": (lambda: _InPlaceZ(), lambda: [np.array(Zm, dtype=object)]), "phase_damp(0)": (lambda: cirq.phase_damp(0.0), lambda: [np.array(Im, dtype=object)])}
    obls = []
    for seq in seqs:
        roots = []
        for nm, _ in seq:
            if nm in fams:
                roots += [r for r in fams[nm].roots if not any(r.same(x) for x in roots)]

        def f(seq=seq):
            rho = sym_rho(2)
            st = _BufferedDensityMatrix(density_matrix=rho.copy(), buffer=[junk(rho.shape, f"j{i}") for i in range(3)])
            want = rho
            for nm, ax in seq:
                axes = list(ax) if isinstance(ax, tuple) else [ax]
                mk, sp = (fams[nm].make, fams[nm].spec_kraus) if nm in fams else unit[nm]
                if not st.apply_channel(mk(), axes):
                    return False, f"apply_channel({nm}) returned False"
                want = spec_apply(sp(), want, axes, [a + 2 for a in axes])
                ok, d = tensors_equal(st._density_matrix, want)
                if not ok:
                    return False, f"after {nm} on {axes}: {d}"
                ids = {id(st._density_matrix)} | {id(b) for b in st._buffer}
                if len(ids) != 4:
                    return False, f"after {nm}: the state and its three buffers are no longer four distinct arrays"
            return True, ""
        obls.append(_ob(f"C09/{key}#sequence-is-composition[{' ; '.join(f'{n}@{a}' for n, a in seq)}]", f, roots, "sequence"))
    return [_rep(key, obls, "C09")]


ENGINE_CHECKS = [check_descriptions, check_apply_channel, check_buffered_density_matrix]

CANARIES = [
    dict(name="amplitude damping Kraus operator transposed", file="cirq-core/cirq/ops/common_channels.py", engine_check=0,
         find="            p0 * np.array([[0.0, sqrt_g], [0.0, 0.0]]),", replace="            p0 * np.array([[0.0, 0.0], [sqrt_g, 0.0]]),"),
    dict(name="depolarizing weight p/4**n", file="cirq-core/cirq/ops/common_channels.py", engine_check=0,
         find="        p_depol = p / (4**n_qubits - 1)", replace="        p_depol = p / (4**n_qubits)"),
    dict(name="single-qubit Kraus path conjugates the left factor", file="cirq-core/cirq/protocols/apply_channel_protocol.py", engine_check=1,
         find="            args.target_tensor, kraus_op, [zero_left, one_left], out=args.auxiliary_buffer1", replace="            args.target_tensor, np.conjugate(kraus_op), [zero_left, one_left], out=args.auxiliary_buffer1"),
    dict(name="multi-qubit Kraus path forgets to restore the target", file="cirq-core/cirq/protocols/apply_channel_protocol.py", engine_check=1,
         find="    for kraus_op in kraus:\n        np.copyto(dst=args.target_tensor, src=args.auxiliary_buffer0)\n        kraus_tensor",
         replace="    for kraus_op in kraus:\n        kraus_tensor"),
    dict(name="buffer rotation drops the swap", file="cirq-core/cirq/sim/density_matrix_simulation_state.py", engine_check=2,
         find="            if result is self._buffer[i]:\n                self._buffer[i] = self._density_matrix", replace="            pass"),
]
NOT_COVERED = [
    "multi-qubit depolarizing channel (sqrt(p/15) is outside Q(zeta_48)), KrausChannel / MixedUnitaryChannel / RandomGateChannel with arbitrary numeric operators: stand-in",
    "choi_to_kraus / superoperator_to_kraus (numeric eigendecomposition): stand-in",
    "state-vector trajectories, noise models, simulators end to end: stand-ins (C09_simulators.py)",
]
ASSUMPTIONS = [
    "numpy object-array semantics of einsum/tensordot/copyto/slicing equal those of complex arrays (the real code runs unchanged on object arrays)",
    "every probability in [0,1] is sin(t)**2 for a t in [0, pi/2]; probabilities with sum <= 1 are hyperspherical products",
    "trigpoly assumptions of C03 (floats as exact reals; independent unit atoms)",
]
EXPLANATION = ("C09: Kraus/mixture/superoperator/Choi descriptions of 8 library channels proved to be the documented trace-preserving map for all "
               "probabilities; cirq.apply_channel and the buffered density matrix proved to compute sum_K K rho K^dagger for all rho, all probabilities, "
               "every axis placement, and over sequences (buffer rotation); ")
