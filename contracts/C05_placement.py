"""C05 — placement of operations (cirq-core/cirq/circuits/circuit.py).

Abstract view: a moment-or-operation `mop` is an element of the uninterpreted sort Mop with three finite sets
qubits(mop), mkeys(mop), ckeys(mop); dicts are finite maps Qid -> int / Key -> int.  The postconditions are the
property's conflict rule: two operations conflict iff they share a qubit, share a measurement key, or one measures
a key the other is controlled by (control/control does not conflict)."""
import z3

from pyvc import sym
from pyvc.api import Contract, Case
from pyvc.sym import SObj, SSet, wrap, obj_kind

F = "cirq-core/cirq/circuits/circuit.py"

MopS, QidS, KeyS = sym.sort("Mop"), sym.sort("Qid"), sym.sort("Key")
QUBITS = z3.Function("qubits_of", MopS, z3.ArraySort(QidS, z3.BoolSort()))
MKEYS = z3.Function("mkeys_of", MopS, z3.ArraySort(KeyS, z3.BoolSort()))
CKEYS = z3.Function("ckeys_of", MopS, z3.ArraySort(KeyS, z3.BoolSort()))
IS_MOMENT = z3.Function("is_moment", MopS, z3.BoolSort())


def qubits(m):
    return SSet(QUBITS(m.e), obj_kind("Qid"))


def mkeys(m):
    return SSet(MKEYS(m.e), obj_kind("Key"))


def ckeys(m):
    return SSet(CKEYS(m.e), obj_kind("Key"))


def is_moment(m):
    return wrap(IS_MOMENT(m.e))


for _f in (qubits, mkeys, ckeys, is_moment):
    _f._pyvc_native_ok = True

SObj.ATTRS["Mop"] = {"qubits": qubits}


def _isinstance_hook(interp, x, T):
    import cirq

    if isinstance(x, SObj) and x.sortname == "Mop":
        if T is cirq.Moment:
            return is_moment(x)
        raise sym.OutOfReach(f"isinstance(Mop, {T})")
    return NotImplemented


MODELS = {
    ("cirq.protocols.measurement_key_protocol", "measurement_key_objs"): lambda interp, a, k: mkeys(a[0]),
    ("cirq.protocols.control_key_protocol", "control_keys"): lambda interp, a, k: ckeys(a[0]),
}
ENV = dict(qubits=qubits, mkeys=mkeys, ckeys=ckeys, is_moment=is_moment)

M = "moment_or_operation"
OPC = f"not is_moment({M})"
_PARAMS = {M: "obj:Mop", "qubit_indices": "map[obj:Qid->int]", "mkey_indices": "map[obj:Key->int]",
           "ckey_indices": "map[obj:Key->int]"}

_ENS = [
    # (a) the returned index is after every moment the summaries record as conflicting with the operation
    f"implies({OPC}, forall('Qid', lambda q: implies(q in qubits({M}), old_qubit_indices.get(q, -1) < result)))",
    f"implies({OPC}, forall('Key', lambda k: implies(k in mkeys({M}), old_mkey_indices.get(k, -1) < result and old_ckey_indices.get(k, -1) < result)))",
    f"implies({OPC}, forall('Key', lambda k: implies(k in ckeys({M}), old_mkey_indices.get(k, -1) < result)))",
    # (b) ... and it is the earliest such index: 0, or one past a recorded conflict
    f"implies({OPC}, result == 0"
    f" or exists('Qid', lambda q: q in qubits({M}) and old_qubit_indices.get(q, -1) == result - 1)"
    f" or exists('Key', lambda k: k in mkeys({M}) and (old_mkey_indices.get(k, -1) == result - 1 or old_ckey_indices.get(k, -1) == result - 1))"
    f" or exists('Key', lambda k: k in ckeys({M}) and old_mkey_indices.get(k, -1) == result - 1))",
    "result >= 0 or " + f"is_moment({M})",
    # (c) the summaries stay 'greatest moment index touching this qubit / key' for the circuit with mop placed at result
    f"forall('Qid', lambda q: qubit_indices.get(q, -1) == (max(old_qubit_indices.get(q, -1), result) if q in qubits({M}) else old_qubit_indices.get(q, -1)))",
    f"forall('Key', lambda k: mkey_indices.get(k, -1) == (max(old_mkey_indices.get(k, -1), result) if k in mkeys({M}) else old_mkey_indices.get(k, -1)))",
    f"forall('Key', lambda k: ckey_indices.get(k, -1) == (max(old_ckey_indices.get(k, -1), result) if k in ckeys({M}) else old_ckey_indices.get(k, -1)))",
]

Contract(
    F + ":get_earliest_accommodating_moment_index", "C05",
    cases=[
        Case("length:int", dict(_PARAMS, length="int"),
             # `length` is the length of the circuit the summaries describe: every recorded index is below it
             requires=["forall('Qid', lambda q: qubit_indices.get(q, -1) < length)",
                       "forall('Key', lambda k: mkey_indices.get(k, -1) < length and ckey_indices.get(k, -1) < length)",
                       "length >= 0"],
             ensures=_ENS + [f"implies(is_moment({M}), result == length)"]),
        Case("length:None,op", dict(_PARAMS, length="none"), requires=[OPC], ensures=_ENS),
    ],
    env=ENV, models=MODELS, hooks={"isinstance": _isinstance_hook},
    modifies=["qubit_indices", "mkey_indices", "ckey_indices"], result="int",
    notes="Moment with length=None (max over all dict values) is exercised by the bounded stand-in only",
)


# ---- executable form of the same clauses on real cirq objects (bounded stand-in / replay) -------------------------
def _native_post(case, entry, after, outcome, value):
    import cirq

    mop = entry[M]
    qi, mi, ci = entry["qubit_indices"], entry["mkey_indices"], entry["ckey_indices"]
    qi2, mi2, ci2 = after["qubit_indices"], after["mkey_indices"], after["ckey_indices"]
    length = entry["length"]
    if outcome != "return":
        return f"raised {value!r}"
    r = value
    qs, mk, ck = set(mop.qubits), set(cirq.measurement_key_objs(mop)), set(cirq.control_keys(mop))
    if length is not None and any(v >= length for d in (qi, mi, ci) for v in d.values()):
        return "skip"
    if isinstance(mop, cirq.Moment):
        if length is not None and r != length:
            return f"moment placed at {r}, expected length={length}"
    else:
        conflicts = [qi.get(q, -1) for q in qs] + [mi.get(k, -1) for k in mk] + [ci.get(k, -1) for k in mk] + [mi.get(k, -1) for k in ck]
        want = max(conflicts + [-1]) + 1
        if r != want:
            return f"operation placed at {r}, but the earliest index after every conflicting moment is {want}"
    for d_old, d_new, touched, name in ((qi, qi2, qs, "qubit"), (mi, mi2, mk, "mkey"), (ci, ci2, ck, "ckey")):
        for k in set(d_old) | set(d_new) | touched:
            want = max(d_old.get(k, -1), r) if k in touched else d_old.get(k, -1)
            if d_new.get(k, -1) != want:
                return f"{name} summary for {k!r} is {d_new.get(k, -1)}, expected {want}"
    return None


def _gen_placement(tier, seed):
    import itertools, random
    import cirq

    a, b, c = cirq.LineQubit.range(3)
    ops = [cirq.X(a), cirq.CZ(a, b), cirq.measure(a, key="k"), cirq.measure(b, key="k"), cirq.measure(c, key="m"),
           cirq.X(b).with_classical_controls("k"), cirq.X(c).with_classical_controls("k", "m"), cirq.Z(c),
           cirq.measure(a, b, key="m"), cirq.Moment([cirq.X(a), cirq.measure(b, key="k")]), cirq.Moment()]
    rng = random.Random(seed)
    n = 300 if tier == "quick" else 3000
    for _ in range(n):
        # build consistent summaries by replaying a random prefix through the real function
        qi, mi, ci, length = {}, {}, {}, 0
        import cirq.circuits.circuit as cc
        for op in rng.choices(ops, k=rng.randrange(0, 5)):
            i = cc.get_earliest_accommodating_moment_index(op, qi, mi, ci, length)
            length = max(length, i + 1)
        mop = rng.choice(ops)
        yield {M: mop, "qubit_indices": qi, "mkey_indices": mi, "ckey_indices": ci,
               "length": rng.choice([length, length, None]) if not isinstance(mop, cirq.Moment) else length}
_gen_placement.bound = "seeded: summaries reached from the empty circuit by <= 4 placements of 11 ops/moments on 3 qubits, 2 keys; 300 (quick) / 3000 (thorough)"

from pyvc.api import REGISTRY as _R
_c = _R[F + ":get_earliest_accommodating_moment_index"]
_c.native_post = _native_post
_c.cases[0].gen = _gen_placement


# =====================================================================================================================
# availability queries on a circuit seen as a sequence of abstract moments
import cirq as _cirq
from pyvc.interp import SRec
from pyvc.sym import SSeq, SList, SMap, fresh_int

SObj.ATTRS["Mop"].update({
    "operates_on": lambda m: _native_ok(lambda qs: sym.s_not(qubits(m).isdisjoint(qs))),
    "_measurement_key_objs_": lambda m: _native_ok(lambda: mkeys(m)),
    "_control_keys_": lambda m: _native_ok(lambda: ckeys(m)),
})


def _native_ok(f):
    f._pyvc_native_ok = True
    return f


def conflict(op, m):
    """The property's conflict rule between an operation and a moment (or another operation)."""
    def meets(a, b):
        return sym.s_not(a.isdisjoint(b))
    t = [meets(qubits(op), qubits(m)), meets(mkeys(op), mkeys(m)), meets(ckeys(op), mkeys(m)), meets(ckeys(m), mkeys(op))]
    terms = [z3.BoolVal(x) if isinstance(x, bool) else x.e for x in t]
    return wrap(z3.Or(*terms))


conflict._pyvc_native_ok = True
ENV["conflict"] = conflict


def _circuit(name):
    return SRec(_cirq.Circuit, {"_moments": SList(SSeq.fresh(obj_kind("Mop"), "moments", list))})


_INL = [F + ":Circuit.moments"]

Contract(
    F + ":Circuit._can_add_op_at", "C05",
    params={"self": _circuit, "moment_index": "int", "operation": "obj:Mop"},
    ensures=["result == (not (0 <= moment_index < len(self._moments)) or not conflict(operation, self._moments[moment_index]))"],
    env=ENV, models=MODELS, inline=_INL, result="bool",
)

Contract(
    F + ":Circuit.earliest_available_moment", "C05",
    cases=[
        Case("end:int", {"self": _circuit, "op": "obj:Mop", "end_moment_index": "nat"},
             lets={"E": "min(end_moment_index, len(self._moments))"}),
        Case("end:None", {"self": _circuit, "op": "obj:Mop", "end_moment_index": "none"},
             lets={"E": "len(self._moments)"}),
    ],
    ensures=[
        "0 <= result <= E",
        # every moment from the result up to the end accommodates the op ...
        "all(not conflict(op, self._moments[j]) for j in range(result, E))",
        # ... and it is the earliest such index: the moment just before it conflicts
        "result == 0 or conflict(op, self._moments[result - 1])",
    ],
    loops={0: dict(inv=["0 <= k <= E", "last_available == k", "end_moment_index == E",
                        "all(not conflict(op, self._moments[j]) for j in range(k, E))"])},
    env=ENV, models=MODELS, inline=_INL, result="int",
)

Contract(
    F + ":Circuit._latest_available_moment", "C05",
    params={"self": _circuit, "op": "obj:Mop", "start_moment_index": "nat"},
    requires=["start_moment_index <= len(self._moments)"],
    ensures=[
        "start_moment_index - 1 <= result <= len(self._moments)",
        "implies(start_moment_index == len(self._moments), result == start_moment_index)",
        "implies(start_moment_index < len(self._moments), result < len(self._moments))",
        # moments start..result accommodate the op, and the next one (if any) conflicts
        "all(not conflict(op, self._moments[j]) for j in range(start_moment_index, min(result + 1, len(self._moments))))",
        "not (start_moment_index < len(self._moments) and result + 1 < len(self._moments)) or conflict(op, self._moments[result + 1])",
    ],
    loops={0: dict(inv=["start_moment_index <= k <= len(self._moments)", "start_moment_index < len(self._moments)",
                        "all(not conflict(op, self._moments[j]) for j in range(start_moment_index, k))"])},
    env=ENV, models=MODELS, inline=_INL, result="int",
)


def _cache(name):
    K, Q = obj_kind("Key"), obj_kind("Qid")
    return SRec(_cirq.circuits.circuit._PlacementCache, {
        "_qubit_indices": SMap.fresh(Q, sym.INT, "qi"), "_mkey_indices": SMap.fresh(K, sym.INT, "mi"),
        "_ckey_indices": SMap.fresh(K, sym.INT, "ci"), "_length": fresh_int("length")})


_CACHE_INV = ("{s}._length >= 0 and forall('Qid', lambda q: {s}._qubit_indices.get(q, -1) < {s}._length) and "
              "forall('Key', lambda k: {s}._mkey_indices.get(k, -1) < {s}._length and {s}._ckey_indices.get(k, -1) < {s}._length)")

Contract(
    F + ":_PlacementCache.append", "C05",
    params={"self": _cache, M: "obj:Mop"},
    requires=[_CACHE_INV.format(s="self")],
    ensures=[
        _CACHE_INV.format(s="self"),  # class invariant re-established: every recorded index < _length
        "self._length == max(old_self._length, result + 1)",
        f"implies(is_moment({M}), result == old_self._length)",
        f"implies({OPC}, forall('Qid', lambda q: implies(q in qubits({M}), old_self._qubit_indices.get(q, -1) < result)))",
        f"implies({OPC}, forall('Key', lambda k: implies(k in mkeys({M}), old_self._mkey_indices.get(k, -1) < result and old_self._ckey_indices.get(k, -1) < result)))",
        f"implies({OPC}, forall('Key', lambda k: implies(k in ckeys({M}), old_self._mkey_indices.get(k, -1) < result)))",
        f"forall('Qid', lambda q: self._qubit_indices.get(q, -1) == (max(old_self._qubit_indices.get(q, -1), result) if q in qubits({M}) else old_self._qubit_indices.get(q, -1)))",
    ],
    env=ENV, models=MODELS, result="int",
)


# ---- bounded stand-in: the same clauses on real circuits -------------------------------------------------------------
def _conflict_native(op, m):
    import cirq
    q = set(op.qubits) & set(m.qubits)
    mk_o, ck_o = set(cirq.measurement_key_objs(op)), set(cirq.control_keys(op))
    mk_m, ck_m = set(cirq.measurement_key_objs(m)), set(cirq.control_keys(m))
    return bool(q or (mk_o & mk_m) or (ck_o & mk_m) or (ck_m & mk_o))


def standin_availability(tier, seed):
    import random
    import cirq

    rng = random.Random(seed)
    a, b, c = cirq.LineQubit.range(3)
    ops = [cirq.X(a), cirq.CZ(a, b), cirq.measure(a, key="k"), cirq.measure(b, key="k"), cirq.measure(c, key="m"),
           cirq.X(b).with_classical_controls("k"), cirq.X(c).with_classical_controls("k", "m"), cirq.Z(c),
           cirq.measure(a, b, key="m"), cirq.CZ(b, c)]
    n = 200 if tier == "quick" else 3000
    cases, fails, distinct = 0, [], set()
    for _ in range(n):
        circ = cirq.Circuit(rng.choices(ops, k=rng.randrange(0, 7)),
                            strategy=rng.choice([cirq.InsertStrategy.EARLIEST, cirq.InsertStrategy.NEW_THEN_INLINE, cirq.InsertStrategy.NEW]))
        op = rng.choice(ops)
        L = len(circ)
        distinct.add((repr(circ), repr(op)))
        for i in range(-1, L + 2):
            cases += 1
            got = circ._can_add_op_at(i, op)
            want = (not 0 <= i < L) or not _conflict_native(op, circ[i])
            if got != want:
                fails.append(dict(args=dict(circuit=repr(circ), op=repr(op), moment_index=i), failed="_can_add_op_at", clause=f"got {got}, expected {want}"))
        for end in list(range(0, L + 2)) + [None]:
            cases += 1
            E = L if end is None else min(end, L)
            r = circ.earliest_available_moment(op, end_moment_index=end)
            ok = 0 <= r <= E and all(not _conflict_native(op, circ[j]) for j in range(r, E)) and (r == 0 or _conflict_native(op, circ[r - 1]))
            if not ok:
                fails.append(dict(args=dict(circuit=repr(circ), op=repr(op), end_moment_index=end), failed="earliest_available_moment", clause=f"returned {r}"))
        for start in range(0, L + 1):
            cases += 1
            r = circ._latest_available_moment(op, start_moment_index=start)
            ok = (start - 1 <= r <= L and (r == start if start == L else r < L)
                  and all(not _conflict_native(op, circ[j]) for j in range(start, min(r + 1, L)))
                  and (not (start < L and r + 1 < L) or _conflict_native(op, circ[r + 1])))
            if not ok:
                fails.append(dict(args=dict(circuit=repr(circ), op=repr(op), start_moment_index=start), failed="_latest_available_moment", clause=f"returned {r}"))
    return dict(function=F + ":Circuit.{_can_add_op_at,earliest_available_moment,_latest_available_moment}", case="native",
                bound=f"{n} seeded circuits of <= 6 ops from a 10-op alphabet (3 qubits, 2 keys, classical controls), every index argument",
                cases=cases, distinct=len(distinct), failures=len(fails), exhaustive=False, _fails=fails[:3])
standin_availability.prop = "C05"
STANDINS = [standin_availability]

CANARIES = [
    dict(name="drop ckey-vs-mkey term in placement", file=F, function=F + ":get_earliest_accommodating_moment_index",
         find="last_conflict = max(last_conflict, *[ckey_indices.get(key, -1) for key in mop_mkeys])", replace="pass"),
    dict(name="ckey summary loses max", file=F, function=F + ":get_earliest_accommodating_moment_index",
         find="ckey_indices[key] = max(mop_index, ckey_indices.get(key, -1))", replace="ckey_indices[key] = mop_index"),
    dict(name="_can_add_op_at ignores control keys of the moment", file=F, function=F + ":Circuit._can_add_op_at",
         find="""                    and op_measurement_keys.isdisjoint(
                        protocols.control_keys(self._moments[moment_index])
                    )""", replace=""),
    dict(name="earliest_available_moment off by one", file=F, function=F + ":Circuit.earliest_available_moment",
         find="            last_available = k\n        return last_available", replace="            last_available = k + 1\n        return last_available"),
    dict(name="cache length not advanced", file=F, function=F + ":_PlacementCache.append",
         find="self._length = max(self._length, index + 1)", replace="self._length = max(self._length, index)"),
]
NOT_COVERED = [
    "Circuit.insert / insert_into_range / batch_* / __setitem__ and the other public mutators: bounded history driver only (not yet under contract)",
    "Moment.with_operation(s): not yet under contract",
    "get_earliest_accommodating_moment_index for a Moment with length=None: bounded only",
    "link between the summary dicts and an explicit circuit view (ghost S) is stated in DESIGN.md but not mechanised; the contract is over the summaries",
]
ASSUMPTIONS = [
    "Operation/Moment abstracted as an uninterpreted sort with finite sets qubits/measurement keys/control keys; "
    "protocols.measurement_key_objs / control_keys / Moment.operates_on are assumed to return exactly those sets",
    "`for x in S: M[x] = e` over a set is summarised as a simultaneous map update (each element visited once)",
    "termination of the while loops not proved",
]
EXPLANATION = ("C05: placement functions proved against the property's conflict rule over abstract operations "
               "(uninterpreted sort with qubit / measurement-key / control-key sets) for circuits of any length. ")
