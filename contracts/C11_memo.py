"""C11 — the encoder memo and the decoder memo of SerializableByKey objects (shared sub-circuits), over call histories.

`CirqEncoder.default` writes the first occurrence of a shared object as {"cirq_type": "VAL", "key": k, "val": ...} and every later
occurrence of an EQUAL object as {"cirq_type": "REF", "key": k}; `ObjectHook.__call__` stores VAL k and returns it for REF k.
Contract (finite histories of up to 3 calls on a fresh encoder / decoder, but over ARBITRARY objects: values and identities are
symbolic, hash() is an uninterpreted function that need not be injective):
  call j returns REF k  iff  an equal object was passed in an earlier call, and k is the key of the first such call;
  otherwise it returns VAL with the next unused key and the object's own JSON dictionary.
The encoder's dicts are modelled by association lists whose key comparisons are decided by path exploration (exactly the
semantics of a Python dict whose keys obey `a == b => hash(a) == hash(b)`); the real method bodies are executed on them."""
import z3

from pyvc import sym, paths
from pyvc.api import Contract, Case
from pyvc.interp import SRec
from pyvc.sym import Sym, SObj, SInt, wrap, fresh_int

F = "cirq-core/cirq/protocols/json_serialization.py"


class AssocDict(Sym):
    """dict as an insertion-ordered association list; key equality is decided by branching the path"""

    def __init__(self):
        self.items_ = []

    __hash__ = object.__hash__

    def _find(self, k):
        for i, (kk, _) in enumerate(self.items_):
            eq = kk == k
            t = sym.to_z3(eq) if isinstance(eq, Sym) else eq
            if t is True or (t is not False and paths.current().branch(t)):
                return i
        return None

    def get(self, k, default=None):
        i = self._find(k)
        return default if i is None else self.items_[i][1]

    def __getitem__(self, k):
        i = self._find(k)
        if i is None:
            paths.current().require(z3.BoolVal(False), "safe.key", exc="KeyError")
            raise KeyError("no such key")
        return self.items_[i][1]

    def __setitem__(self, k, v):
        i = self._find(k)
        if i is None:
            self.items_.append((k, v))
        else:
            self.items_[i] = (self.items_[i][0], v)

    def __contains__(self, k):
        return self._find(k) is not None

    def length(self):
        return len(self.items_)

    def __len__(self):
        return len(self.items_)


class SbkObj(SObj):
    """a SerializableByKey object: value term (sort Sbk, compared by ==) and identity (an integer, returned by id())"""
    __slots__ = ("ident",)

    def __init__(self, name):
        super().__init__(z3.Const(sym.fresh_name(name), sym.sort("Sbk")), "Sbk")
        self.ident = fresh_int(name + "_id")

    __hash__ = object.__hash__


JD = z3.Function("json_dict_of", sym.sort("Sbk"), sym.sort("Json"))
HASH = z3.Function("hash_of", sym.sort("Sbk"), z3.IntSort())
SObj.ATTRS["Sbk"] = {"_json_dict_": lambda o: (lambda: SObj(JD(o.e), "Json"))}
_OBJS = []


def _obj(name):
    o = SbkObj(name)
    for p in _OBJS:
        # one identity, one object: equal ids imply equal values (objects are immutable while they are being written)
        paths.current().assume(z3.Implies(sym.to_z3(p.ident) == sym.to_z3(o.ident), p.e == o.e))
    _OBJS.append(o)
    return o


def _encoder(name):
    from cirq.protocols import json_serialization as js

    _OBJS.clear()
    return SRec(js.CirqEncoder, {"_memo": AssocDict(), "_cache": AssocDict()})


def _m_id(interp, args, kwargs):
    (o,) = args
    if isinstance(o, SbkObj):
        return o.ident
    return NotImplemented


def _m_hash(interp, args, kwargs):
    (o,) = args
    if isinstance(o, SbkObj):
        return SInt(HASH(o.e))
    return NotImplemented


def _m_jd(interp, args, kwargs):
    (o,) = args
    return SObj(JD(o.e), "Json")


def _isinstance(interp, x, T):
    from cirq.protocols import json_serialization as js

    if isinstance(x, SbkObj):
        return T is js.SerializableByKey or T is object
    return NotImplemented


MODELS = {("builtins", "id"): _m_id, ("builtins", "hash"): _m_hash, ("cirq.protocols.json_serialization", "_json_dict_with_cirq_type"): _m_jd}


def encode3(enc, o1, o2, o3):
    r1 = enc.default(o1)
    r2 = enc.default(o2)
    r3 = enc.default(o3)
    return (r1, r2, r3)


def is_val(r, k, o):
    return r["cirq_type"] == "VAL" and r["key"] == k and r["val"] == SObj(JD(o.e), "Json")


def is_ref(r, k):
    return r["cirq_type"] == "REF" and r["key"] == k and len(r) == 2


is_val._pyvc_native_ok = True
is_ref._pyvc_native_ok = True
ENV = {"is_val": is_val, "is_ref": is_ref}

Contract(
    "verif:contracts/C11_memo.py:encode3", "C11",
    params={"enc": _encoder, "o1": _obj, "o2": _obj, "o3": _obj},
    ensures=[
        "is_val(result[0], 0, o1)",
        "implies(o2 == o1, is_ref(result[1], 0))",
        "implies(o2 != o1, is_val(result[1], 1, o2))",
        "implies(o3 == o1, is_ref(result[2], 0))",
        "implies(o3 != o1 and o3 == o2, is_ref(result[2], 1))",
        "implies(o3 != o1 and o3 != o2 and o2 == o1, is_val(result[2], 1, o3))",
        "implies(o3 != o1 and o3 != o2 and o2 != o1, is_val(result[2], 2, o3))",
    ],
    env=ENV, models=MODELS, hooks={"isinstance": _isinstance}, inline=[F + ":CirqEncoder.default"],
    notes="history of three default() calls on a fresh encoder; objects, identities and hashes symbolic",
)


# ---- decoder ---------------------------------------------------------------------------------------------------------
def _hook(name):
    from cirq.protocols import json_serialization as js

    return SRec(js.ObjectHook, {"resolvers": (), "memo": AssocDict(), "context_map": AssocDict()})


def _val_obj(name):
    return sym.fresh_obj("Decoded", name)


def decode3(hook, k1, v1, k2, v2, k3):
    a = hook.__call__({"cirq_type": "VAL", "key": k1, "val": v1})
    b = hook.__call__({"cirq_type": "VAL", "key": k2, "val": v2})
    c = hook.__call__({"cirq_type": "REF", "key": k3})
    return (a, b, c)


Contract(
    "verif:contracts/C11_memo.py:decode3", "C11",
    params={"hook": _hook, "k1": "int", "v1": _val_obj, "k2": "int", "v2": _val_obj, "k3": "int"},
    requires=["k1 != k2", "k3 == k1 or k3 == k2"],
    ensures=["result[0] == v1", "result[1] == v2", "implies(k3 == k1, result[2] == v1)", "implies(k3 == k2, result[2] == v2)"],
    inline=[F + ":ObjectHook.__call__"],
    notes="VAL k stores the decoded value, REF k returns the value stored under the same key (keys distinct as the encoder guarantees)",
)

def _replay(ob, seed):
    """native replay of a failed history obligation: small pool of shared objects incl. pairs with colliding hashes"""
    import itertools

    import cirq
    from cirq.protocols import json_serialization as js

    pool = []
    for q in (cirq.LineQubit(-1), cirq.LineQubit(-2), cirq.LineQubit(0), cirq.GridQubit(-1, 0), cirq.GridQubit(-2, 0)):
        pool += [cirq.FrozenCircuit(cirq.X(q)), cirq.FrozenCircuit(cirq.X(q))]  # equal values, distinct identities
    for objs in itertools.product(pool, repeat=3):
        enc = js.CirqEncoder()
        seen, ok = [], True
        for o in objs:
            r = enc.default(o)
            first = next((i for i, p in enumerate(seen) if p == o), None)
            if first is None:
                want_key = len(seen)
                seen.append(o)
                ok = r.get("cirq_type") == "VAL" and r.get("key") == want_key
            else:
                ok = r.get("cirq_type") == "REF" and r.get("key") == first
            if not ok:
                return dict(args=dict(history=[repr(x) for x in objs], hashes=[hash(x) for x in objs]), failed="memo history",
                            clause=ob.name, how="cirq.protocols.json_serialization.CirqEncoder().default(o) for each o in turn; REF k must be returned exactly for a value equal to the k-th distinct value")
    return None


REPLAYERS = {"verif:contracts/C11_memo.py:encode3": _replay}

CANARIES = [
    dict(name="encoder memo keyed by hash(o)", file=F, function="verif:contracts/C11_memo.py:encode3",
         find="                if ref := self._memo.get(o):\n                    return ref\n                key = len(self._memo)\n                ref = {\"cirq_type\": \"REF\", \"key\": key}\n                self._memo[o] = ref",
         replace="                if ref := self._memo.get(hash(o)):\n                    return ref\n                key = len(self._memo)\n                ref = {\"cirq_type\": \"REF\", \"key\": key}\n                self._memo[hash(o)] = ref"),
    dict(name="encoder memo keyed by id(o)", file=F, function="verif:contracts/C11_memo.py:encode3",
         find="                if ref := self._memo.get(o):\n                    return ref\n                key = len(self._memo)\n                ref = {\"cirq_type\": \"REF\", \"key\": key}\n                self._memo[o] = ref",
         replace="                if ref := self._memo.get(oid):\n                    return ref\n                key = len(self._memo)\n                ref = {\"cirq_type\": \"REF\", \"key\": key}\n                self._memo[oid] = ref"),
    dict(name="decoder stores every VAL under key 0", file=F, function="verif:contracts/C11_memo.py:decode3",
         find="            self.memo[d['key']] = obj", replace="            self.memo[0] = obj"),
]
NOT_COVERED = ["histories longer than three calls; the _cache fast path beyond what three calls reach; nesting (a VAL inside a VAL) is the json module's traversal order, not modelled"]
ASSUMPTIONS = ["an id() value identifies one object while a document is being written (the id-keyed _cache does not keep its referents alive itself)",
               "Python dict semantics for keys obeying a == b => hash(a) == hash(b) are those of an association list"]
EXPLANATION = ("C11: encoder/decoder memo of shared objects proved over all histories of three calls with symbolic objects, identities and non-injective hashes: "
               "REF k is emitted exactly for objects equal to the one written as VAL k, and decodes to it; ")
