"""C20 — asynchronous orchestration: safety invariants that hold in every interleaving.

Both components run on cooperative schedulers (duet / asyncio): code between two awaits is atomic, so an invariant preserved by
every atomic segment holds under every completion order.  Deductive:
 * Collector.collect_async (pyvc, async subset): the dispatch loop never exceeds `concurrency`, starts a job only while sample
   budget is left, asks next_job() only when the queue is empty and a slot and budget are free, and awaits a result only while a
   job is running (no lost wake-up); duet's AsyncCollector / scope.spawn and next_job() are abstract (assume_contract).
 * stream_manager._get_retry_request_or_raise: total decision table over (error code, request kind), finite domain enumerated.
 * ResponseDemux: subscribe / publish / publish_exception against the view message_id -> future, on its finite event alphabet.
Liveness (keeps asking until no work is left, results eventually returned) is NOT proved."""
import itertools
import time

import z3

from pyvc import api, paths, sym
from pyvc.api import Contract, Case
from pyvc.interp import SRec
from pyvc.sym import SObj, SSeq, SList, wrap, obj_kind

FC = "cirq-core/cirq/work/collector.py"
FS = "cirq-google/cirq_google/engine/stream_manager.py"

JobS = sym.sort("Job")
REPS = z3.Function("job_repetitions", JobS, z3.IntSort())
SObj.ATTRS["Job"] = {"repetitions": lambda j: wrap(REPS(j.e))}


class _Results(sym.Sym):
    def __anext__(self):
        return (sym.fresh_obj("Job", "done_job"), "RESULT")

    def add(self, x):
        pass

    def error(self, e):
        pass


class _Scope(sym.Sym):
    def spawn(self, fn, job):
        return None


ASSERTS = {
    "spawn": ["running_jobs <= concurrency", "running_jobs >= 1", "remaining_samples + new_job.repetitions > 0"],
    "next_job": ["len(queued_jobs) == 0", "remaining_samples > 0", "running_jobs < concurrency"],
    "__anext__": ["running_jobs >= 1"],
}


def _before_call(interp, fn, args, kwargs, node, env):
    import ast

    name = node.func.attr if isinstance(node.func, ast.Attribute) else None
    if name in ASSERTS:
        p = paths.current()
        for i, a in enumerate(ASSERTS[name]):
            t = interp.eval_spec(a, env)
            p.prove(interp._as_term(t), f"{interp.current_owner}#assert@{name}.{i}[line {node.lineno}]", "assert")


def _collector(name):
    import cirq

    return SRec(cirq.Collector, {})


Contract(
    FC + ":Collector.collect_async", "C20",
    params={"self": _collector, "sampler": ("const", "SAMPLER"), "concurrency": "nat", "max_total_samples": "nat"},
    ensures=["result is None"],
    loops={0: dict(inv=["0 <= running_jobs", "running_jobs <= concurrency"], kinds={"queued_jobs": "list[obj:Job]", "remaining_samples": "int"}),
           1: dict(inv=["0 <= running_jobs", "running_jobs <= concurrency"], kinds={"queued_jobs": "list[obj:Job]", "remaining_samples": "int"})},
    models={
        ("duet.aitertools", "AsyncCollector"): lambda i, a, k: _Results(),
        ("duet.api", "new_scope"): lambda i, a, k: _Scope(),
        ("cirq.work.collector", "_flatten_jobs"): lambda i, a, k: SSeq.fresh(obj_kind("Job"), "jobs", tuple),
        ("cirq.work.collector", "Collector.next_job"): lambda i, a, k: "JOBTREE",
        ("cirq.work.collector", "Collector.on_job_result"): lambda i, a, k: None,
    },
    hooks={"before_call": _before_call},
    notes="duet scope / AsyncCollector, next_job and on_job_result are abstract; max_total_samples=None (infinite budget) is not modelled",
)


# ---- finite-domain decisions ---------------------------------------------------------------------------------------------
def _rep(key, obls):
    rep = api.FunctionReport.__new__(api.FunctionReport)
    rep.key, rep.prop, rep.sha, rep.dropped, rep.obligations = key, "C20", None, ["function executed as is on its full finite domain"], obls
    rep.out_of_reach, rep.error, rep.paths, rep.wall, rep.cases, rep.trace = None, None, len(obls), sum(o.ms for o in obls) / 1e3, [], set()
    rep.status = "proved" if all(o.status == "proved" for o in obls) else "failed"
    return rep


def check_retry_table():
    from cirq_google.cloud import quantum
    from cirq_google.engine import stream_manager as sm

    Code = quantum.StreamError.Code
    reqs = {
        "create_quantum_program_and_job": quantum.QuantumRunStreamRequest(create_quantum_program_and_job=quantum.CreateQuantumProgramAndJobRequest()),
        "create_quantum_job": quantum.QuantumRunStreamRequest(create_quantum_job=quantum.CreateQuantumJobRequest()),
        "get_quantum_result": quantum.QuantumRunStreamRequest(get_quantum_result=quantum.GetQuantumResultRequest()),
    }
    cpj, cj, gr = "CPJ", "CJ", "GR"
    # from the statement: after 'does not exist / already exists' replies the client re-sends the request that makes the job run
    # exactly once and returns its result; everything else surfaces as StreamError
    table = {
        (Code.PROGRAM_DOES_NOT_EXIST, "create_quantum_job"): cpj,
        (Code.PROGRAM_ALREADY_EXISTS, "create_quantum_program_and_job"): gr,
        (Code.JOB_DOES_NOT_EXIST, "get_quantum_result"): cj,
        (Code.JOB_ALREADY_EXISTS, "create_quantum_program_and_job"): gr,
        (Code.JOB_ALREADY_EXISTS, "create_quantum_job"): gr,
    }
    obls = []
    key = FS + ":_get_retry_request_or_raise"
    for code in Code:
        for kind, req in reqs.items():
            t0 = time.time()
            err = quantum.StreamError(code=code, message="m")
            try:
                got = sm._get_retry_request_or_raise(err, req, cpj, cj, gr)
            except Exception as ex:  # by name: a canary re-executes the module, which creates a second StreamError class
                if type(ex).__name__ != "StreamError":
                    raise
                got = "raise"
            want = table.get((code, kind), "raise")
            ok = got == want
            o = paths.Obligation(f"C20/{key}#table[{code.name}; current={kind}]", "engine", "proved" if ok else "failed", (time.time() - t0) * 1e3,
                                 "finite-domain enumeration", detail="" if ok else f"returned {got}, the protocol requires {want}")
            o.case, o.concrete = "_get_retry_request_or_raise", dict(code=code.name, current=kind)
            obls.append(o)
    return [_rep(key, obls)]


def _replay_table(ob, seed):
    """the failed cell of the retry table IS a concrete call of the real function: run it again natively"""
    from cirq_google.cloud import quantum
    from cirq_google.engine import stream_manager as sm

    if not ob.concrete or "code" not in ob.concrete:
        return None
    code, kind = ob.concrete["code"], ob.concrete["current"]
    req = quantum.QuantumRunStreamRequest(**{kind: {"create_quantum_program_and_job": quantum.CreateQuantumProgramAndJobRequest, "create_quantum_job": quantum.CreateQuantumJobRequest,
                                                    "get_quantum_result": quantum.GetQuantumResultRequest}[kind]()})
    try:
        got = sm._get_retry_request_or_raise(quantum.StreamError(code=quantum.StreamError.Code[code], message="m"), req, "CPJ", "CJ", "GR")
    except Exception as ex:
        got = f"raise {type(ex).__name__}"
    return dict(args=dict(error_code=code, current_request=kind, create_program_and_job="CPJ", create_job="CJ", get_result="GR"), failed="retry-table",
                clause=f"_get_retry_request_or_raise returned {got}; {ob.detail}")


REPLAYERS = {FS + ":_get_retry_request_or_raise": _replay_table}


def check_demux():
    """ResponseDemux on every event sequence of length <= 3 over {subscribe a/b, publish a/b/c, publish_exception}: exhaustive"""
    import asyncio
    from cirq_google.engine import stream_manager as sm
    from cirq_google.cloud import quantum

    key = FS + ":ResponseDemux"
    events = [("sub", "a"), ("sub", "b"), ("pub", "a"), ("pub", "b"), ("pub", "c"), ("exc", None)]
    obls = []

    async def run(seq):
        d = sm.ResponseDemux()
        view = {}      # spec: message id -> index of the future that is waiting
        futures = []   # all futures ever handed out, with what they must hold
        expect = []
        for ev, mid in seq:
            if ev == "sub":
                try:
                    f = d.subscribe(mid)
                    if mid in view:
                        return f"subscribe({mid}) succeeded although {mid} already has a subscriber"
                    view[mid] = len(futures)
                    futures.append(f)
                    expect.append(None)
                except ValueError:
                    if mid not in view:
                        return f"subscribe({mid}) raised although nobody is subscribed"
            elif ev == "pub":
                resp = quantum.QuantumRunStreamResponse(message_id=mid)
                d.publish(resp)
                if mid in view:
                    expect[view.pop(mid)] = ("result", mid)
            else:
                ex = RuntimeError("boom")
                d.publish_exception(ex)
                for m_, i in list(view.items()):
                    expect[i] = ("exception", None)
                view.clear()
        for f, e in zip(futures, expect):
            if e is None:
                if f.done():
                    return "a future was resolved although no response for its message id arrived"
            elif e[0] == "result":
                if not f.done() or f.exception() is not None or f.result().message_id != e[1]:
                    return f"the future subscribed for {e[1]} did not receive exactly that response"
            else:
                if not f.done() or f.exception() is None:
                    return "a pending future did not receive the published exception"
        return None

    for n in (1, 2, 3):
        for seq in itertools.product(events, repeat=n):
            t0 = time.time()
            msg = asyncio.run(run(seq))
            o = paths.Obligation(f"C20/{key}#history[{' '.join(e + (':' + m if m else '') for e, m in seq)}]", "engine", "proved" if msg is None else "failed",
                                 (time.time() - t0) * 1e3, "finite-history enumeration (length <= 3)", detail=msg or "")
            o.case = "ResponseDemux"
            obls.append(o)
    rep = _rep(key, obls)
    rep.dropped = ["class executed as is on every event history of length <= 3 (BOUNDED in history length; reported as exhaustive-small, not as an unbounded proof)"]
    return [rep]


ENGINE_CHECKS = [check_retry_table, check_demux]

CANARIES = [
    dict(name="budget only guards next_job()", file=FC, function=FC + ":Collector.collect_async",
         find="                while remaining_samples > 0 and running_jobs < concurrency:\n                    if not queued_jobs:\n",
         replace="                while running_jobs < concurrency:\n                    if not queued_jobs and remaining_samples > 0:\n"),
    dict(name="concurrency bound off by one", file=FC, function=FC + ":Collector.collect_async",
         find="while remaining_samples > 0 and running_jobs < concurrency:", replace="while remaining_samples > 0 and running_jobs <= concurrency:"),
    dict(name="JOB_ALREADY_EXISTS re-creates the job", file=FS, engine_check=0,
         find="        if not 'get_quantum_result' in current_request:\n            return get_result_request", replace="        if not 'get_quantum_result' in current_request:\n            return create_job_request"),
    dict(name="publish resolves without removing the subscriber", file=FS, engine_check=1,
         find="        future = self._subscribers.pop(response.message_id, None)", replace="        future = self._subscribers.get(response.message_id, None)"),
]


# ---- ProcessorSampler: the concurrency limiter is held until the job's results have arrived ------------------------------------
FP = "cirq-google/cirq_google/engine/processor_sampler.py"
_HELD = {"n": 0, "max": 0}


class _Limiter(sym.Sym):
    """duet.Limiter as a counter of held slots (abstract: waiting for a free slot is the scheduler's business)"""

    def aenter(self):
        _HELD["n"] += 1
        _HELD["max"] = max(_HELD["max"], _HELD["n"])

    def aexit(self):
        _HELD["n"] -= 1


class _EngineJob(sym.Sym):
    def results_async(self):
        return "RESULTS"


class _Processor(sym.Sym):
    def run_sweep_async(self, **kw):
        return _EngineJob()


def _sampler(name):
    import cirq_google

    _HELD["n"] = _HELD["max"] = 0
    return SRec(cirq_google.ProcessorSampler, {"_concurrent_job_limiter": _Limiter(), "_processor": _Processor(), "_run_name": "r", "_snapshot_id": "s", "_device_config_name": "d"})


def _before_sampler_call(interp, fn, args, kwargs, node, env):
    import ast

    name = node.func.attr if isinstance(node.func, ast.Attribute) else None
    if name in ("run_sweep_async", "results_async"):
        paths.current().prove(z3.BoolVal(_HELD["n"] == 1), f"{interp.current_owner}#assert@{name}.slot-held[line {node.lineno}]", "assert")


def slots_released():
    return _HELD["n"] == 0 and _HELD["max"] == 1


slots_released._pyvc_native_ok = True

Contract(
    FP + ":ProcessorSampler._run_sweep_async", "C20",
    params={"self": _sampler, "program": ("const", "PROGRAM"), "params": ("const", "PARAMS"), "repetitions": "nat"},
    ensures=["result == 'RESULTS'", "slots_released()"],
    env={"slots_released": slots_released},
    hooks={"before_call": _before_sampler_call},
    notes="one limiter slot is held from before the job is created until its results have arrived (so max_concurrent_jobs bounds the jobs in flight), and released on every exit",
)

CANARIES = list(globals().get("CANARIES", [])) + [
    dict(name="ProcessorSampler releases its slot before awaiting the results", file=FP, function=FP + ":ProcessorSampler._run_sweep_async",
         find="            )\n\n            return await job.results_async()", replace="            )\n\n        return await job.results_async()"),
]


# ---- EngineJob._await_result_async: a result is only asked for, and a failure only reported, for a job that has FINISHED -----------------
FJ = "cirq-google/cirq_google/engine/engine_job.py"
QJobS = sym.sort("QJob")
TERMINAL = z3.Function("job_state_is_terminal", QJobS, z3.BoolSort())
SUCCESS = z3.Function("job_state_is_success", QJobS, z3.BoolSort())
_EJ = {"log": []}


def _qjob(name, terminal):
    j = sym.fresh_obj("QJob", name)
    p = paths.current()
    p.assume(z3.Implies(SUCCESS(j.e), TERMINAL(j.e)))  # SUCCESS is one of the terminal states
    if terminal:
        p.assume(TERMINAL(j.e))
    return j


class _ResultFuture(sym.Sym):
    """the stream's future for this job: delivers a QuantumResult, a (finished) QuantumJob, or fails with StreamError"""

    def __init__(self, kind):
        self.kind = kind


def _await_hook(interp, v, node, env):
    from cirq_google.engine.stream_manager import StreamError

    if isinstance(v, _ResultFuture):
        if v.kind == "stream-error":
            raise StreamError("stream broke")
        if v.kind == "result":
            return _STREAM_RESULT
        return _qjob("stream_job", terminal=True)  # assumption: the stream answers with a QuantumJob only once the job has finished (failed)
    return v


_STREAM_RESULT = SObj(z3.Const("stream_result", sym.sort("QResult")), "QResult")


def _ej_isinstance(interp, x, T):
    from cirq_google.cloud import quantum

    if isinstance(x, SObj) and x.sortname in ("QResult", "QJob"):
        return (T is quantum.QuantumResult and x.sortname == "QResult") or (T is quantum.QuantumJob and x.sortname == "QJob") or T is object
    return NotImplemented


def stream_result():
    return _STREAM_RESULT


stream_result._pyvc_native_ok = True


def _m_poll(interp, args, kwargs):
    """_await_completion_by_polling: polls until the job is in a terminal state; or the service answers NOT_FOUND / another error"""
    from http import HTTPStatus
    from cirq_google.engine import engine_client

    p = paths.current()
    _EJ["log"].append("poll")
    if p.branch(sym.fresh_bool("poll_not_found").e):
        raise engine_client.EngineException("not found", code=HTTPStatus.NOT_FOUND)
    if p.branch(sym.fresh_bool("poll_other_error").e):
        raise engine_client.EngineException("unavailable", code=HTTPStatus.SERVICE_UNAVAILABLE)
    return _qjob("polled_job", terminal=True)


def _m_refresh(interp, args, kwargs):
    """_refresh_job_async: ONE look at the job, whatever state it is in"""
    _EJ["log"].append("refresh")
    return _qjob("refreshed_job", terminal=False)


def _m_raise_on_failure(interp, args, kwargs):
    (job,) = args
    p = paths.current()
    p.prove(TERMINAL(job.e), f"{interp.current_owner}#assert@_raise_on_failure.job-has-finished", "assert")
    if not p.branch(SUCCESS(job.e)):
        raise RuntimeError("job did not succeed")
    return None


class _Client(sym.Sym):
    def get_job_results_async(self, *a):
        _EJ["log"].append("get-results")
        return "POLLED-RESULT"


def _recreated():
    import cirq_google

    _EJ["log"].append("recreate")
    ctx = SRec(type("Ctx", (), {}), {"client": _Client(), "timeout": 10})
    return SRec(cirq_google.EngineJob, {"project_id": "p2", "program_id": "g2", "job_id": "j2", "context": ctx, "_job": None, "_results": None, "_batched_results": None,
                                         "_job_result_future": None, "_recreate_job": None})


_recreated._pyvc_native_ok = True


def _engine_job(future_kind, can_recreate):
    def mk(name):
        import cirq_google

        _EJ["log"] = []
        ctx = SRec(type("Ctx", (), {}), {"client": _Client(), "timeout": 10})
        return SRec(cirq_google.EngineJob, {"project_id": "p", "program_id": "g", "job_id": "j", "context": ctx, "_job": None, "_results": None, "_batched_results": None,
                                             "_job_result_future": None if future_kind is None else _ResultFuture(future_kind), "_recreate_job": _recreated if can_recreate else None})
    return mk


def log_is(*events):
    return _EJ["log"] == list(events)


def log_in(*alternatives):
    return any(_EJ["log"] == list(a) for a in alternatives)


log_is._pyvc_native_ok = True
log_in._pyvc_native_ok = True

_EJ_CASES = []
for _fk in (None, "result", "job", "stream-error"):
    for _rc in (False, True):
        _ens = ["result == stream_result() and log_is()"] if _fk == "result" else [
            # a result fetched by polling: the job was polled to completion (after at most one re-creation), never just looked at once
            "result == 'POLLED-RESULT' and log_in(('poll', 'get-results'), ('poll', 'recreate', 'poll', 'get-results'))"]
        _EJ_CASES.append(Case(f"stream future: {_fk}; re-creation {'possible' if _rc else 'not possible'}", {"self": _engine_job(_fk, _rc)}, ensures=_ens))

Contract(
    FJ + ":EngineJob._await_result_async", "C20",
    cases=_EJ_CASES,
    env={"log_is": log_is, "log_in": log_in, "stream_result": stream_result},
    # exceptions that may leave the function, and where: a service error only out of a poll; "the job did not succeed" only for a finished job
    # (that it HAS finished is the assertion at _raise_on_failure), i.e. straight from the stream's answer or after a poll
    may_raise={"EngineException": "log_in(('poll',), ('poll', 'recreate', 'poll'))", "RuntimeError": "log_in((), ('poll',), ('poll', 'recreate', 'poll'))"},
    models={("cirq_google.engine.engine_job", "EngineJob._await_completion_by_polling"): _m_poll, ("cirq_google.engine.engine_job", "EngineJob._refresh_job_async"): _m_refresh,
            ("cirq_google.engine.engine_job", "_raise_on_failure"): _m_raise_on_failure},
    hooks={"await": _await_hook, "isinstance": _ej_isinstance},
    notes="job states abstract (terminal / success predicates); a failure is reported, and results are fetched, only for a job that _await_completion_by_polling "
          "(or the stream) delivered as finished; a lost job is re-created at most once and then polled to completion; exceptions of the service pass through",
)

CANARIES = list(globals().get("CANARIES", [])) + [
    dict(name="EngineJob looks at the re-created job once instead of polling it to completion", file=FJ, function=FJ + ":EngineJob._await_result_async",
         find="                self._job_result_future = new_job._job_result_future\n\n                self._job = await self._await_completion_by_polling()",
         replace="                self._job_result_future = new_job._job_result_future\n\n                self._job = await self._refresh_job_async()"),
]
