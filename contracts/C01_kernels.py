"""C01 — the in-place kernels every simulator path goes through (apply_unitary) equal the documented matrices.
Same engine checks as C04_kernels (linrow+trigpoly), reported under C01."""
from contracts import C04_kernels as _k


def _relabel(f):
    def check():
        reps = f()
        for r in reps:
            r.prop = "C01"
            for o in r.obligations:
                if o.name.startswith("C04/"):
                    o.name = "C01/" + o.name[4:]
        return reps
    check.__name__ = f.__name__
    return check


ENGINE_CHECKS = [_relabel(f) for f in _k.ENGINE_CHECKS]
REPLAYERS = {}  # the C04 replayer (prefix cirq-core/cirq/ops/) is picked up from contracts.C04_kernels
