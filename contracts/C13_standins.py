"""C13 — bounded / exhaustive stand-ins for the Clifford subsystem (NOT counted as proved)."""
import itertools
import random

import numpy as np

from contracts import refsim


def _stabilizes(tableau, psi, qs):
    import cirq

    for s in tableau.stabilizers():
        m = cirq.unitary(s)  # DensePauliString gate: full 2^n matrix incl. identities and sign
        if not np.allclose(m @ psi, psi, atol=1e-6):
            return False
    return True


def standin_clifford_circuits(tier, seed):
    import cirq

    rng = random.Random(seed)
    cases, fails, distinct = 0, [], set()
    one = [cirq.H, cirq.S, cirq.X, cirq.Y, cirq.Z, cirq.X ** 0.5, cirq.Y ** -0.5, cirq.Z ** 1.5, cirq.SingleQubitCliffordGate.X_sqrt, cirq.SingleQubitCliffordGate.Z_nsqrt]
    two = [cirq.CNOT, cirq.CZ, cirq.SWAP, cirq.ISWAP, cirq.CliffordGate.CNOT, cirq.CliffordGate.CZ, cirq.CliffordGate.SWAP]
    # whole turns that are the identity only up to a phase (the CH form carries the phase), shifted powers, inverse / large exponents
    one += [cirq.rz(2 * np.pi), cirq.rz(-2 * np.pi), cirq.rx(2 * np.pi), cirq.ry(6 * np.pi), cirq.ZPowGate(exponent=2, global_shift=0.25), cirq.ZPowGate(exponent=-2, global_shift=0.25),
            cirq.XPowGate(exponent=2, global_shift=0.5), cirq.YPowGate(exponent=4, global_shift=0.125), cirq.ZPowGate(exponent=1, global_shift=-0.5), cirq.HPowGate(exponent=2, global_shift=0.25), cirq.Z ** -0.5, cirq.X ** 3]
    two += [cirq.CZPowGate(exponent=2, global_shift=0.25), cirq.ISwapPowGate(exponent=4, global_shift=0.25), cirq.SwapPowGate(exponent=2, global_shift=0.5), cirq.CNOT ** -1, cirq.ISWAP ** -1,
            cirq.XXPowGate(exponent=1, global_shift=-0.5), cirq.ZZ ** 2, cirq.CXPowGate(exponent=2, global_shift=0.125)]
    for it in range(60 if tier == "quick" else 1500):
        n = rng.choice([1, 2, 3, 3, 4])
        qs = cirq.LineQubit.range(n)
        ops = []
        for _ in range(rng.randrange(1, 10)):
            r = rng.random()
            if n >= 2 and r < 0.4:
                ops.append(rng.choice(two).on(*rng.sample(qs, 2)))
            elif n >= 3 and r < 0.5:
                # a 3-qubit Clifford gate built from an op list, applied on a permutation of (part of) the register
                a, b, c = cirq.LineQubit.range(3)
                g = cirq.CliffordGate.from_op_list([cirq.H(a), cirq.CNOT(a, b), cirq.S(c), cirq.CZ(b, c)], [a, b, c])
                ops.append(g.on(*rng.sample(qs, 3)))
            elif n >= 2 and r < 0.55:
                g = cirq.CliffordGate.from_op_list([cirq.H(qs[0]), cirq.CNOT(qs[0], qs[1]), cirq.S(qs[1])], [qs[0], qs[1]])
                ops.append(g.on(*rng.sample(qs, 2)))
            elif r < 0.68:
                # Pauli products used as operations: with a phase, and products that collapse to a phase times the identity
                x = rng.choice(qs)
                y = rng.choice(qs)
                ops.append(rng.choice([
                    lambda: cirq.Z(x) * cirq.X(x) * cirq.Y(x), lambda: -1 * cirq.X(x) * cirq.X(x), lambda: 1j * cirq.X(x) * (cirq.Z(y) if y != x else 1), lambda: -cirq.Y(x) * (cirq.X(y) if y != x else 1),
                    lambda: cirq.DensePauliString("I" * min(n, 2), coefficient=-1j).on(*qs[: min(n, 2)]), lambda: cirq.DensePauliString("XZ"[: min(n, 2)], coefficient=1j).on(*rng.sample(qs, min(n, 2))),
                    lambda: cirq.DensePauliString("IY"[: min(n, 2)], coefficient=-1).on(*rng.sample(qs, min(n, 2)))])())
            else:
                ops.append(rng.choice(one).on(rng.choice(qs)))
        c = cirq.Circuit(ops)
        cases += 1
        distinct.add(repr(c))
        psi = refsim.ref_unitary(c, list(qs))[:, 0]
        # tableau
        st = cirq.CliffordTableauSimulationState(tableau=cirq.CliffordTableau(n), qubits=qs, prng=np.random.RandomState(0))
        for op in c.all_operations():
            cirq.act_on(op, st)
        if not _stabilizes(st.tableau, psi, list(qs)):
            fails.append(dict(args=dict(circuit=repr(c)), failed="tableau", clause="the tableau's stabilizers do not stabilize the state computed from the matrices"))
        # CH form, incl. global phase
        ch = cirq.StabilizerChFormSimulationState(qubits=qs, prng=np.random.RandomState(0), initial_state=0)
        for op in c.all_operations():
            cirq.act_on(op, ch)
        if not np.allclose(ch.state.state_vector(), psi, atol=1e-6):
            fails.append(dict(args=dict(circuit=repr(c)), failed="ch-form", clause="CH-form state vector (incl. global phase) differs from the matrix product"))
        # Clifford simulator front end (joint state and the per-qubit split that is merged / reordered at the end)
        for split in (False, True):
            r = cirq.CliffordSimulator(split_untangled_states=split).simulate(c, qubit_order=qs)
            if not np.allclose(r.final_state.state_vector(), psi, atol=1e-6):
                fails.append(dict(args=dict(circuit=repr(c), split_untangled_states=split), failed="clifford-simulator", clause=f"CliffordSimulator(split_untangled_states={split}) final state differs from the matrix product"))
        # reordering the qubits of the CH form and of the tableau state = transposing the state vector
        if n >= 2:
            perm = rng.sample(range(n), n)
            ch2 = ch.state.copy().reindex(perm)
            want = np.transpose(psi.reshape((2,) * n), perm).reshape(-1)
            if not np.allclose(ch2.state_vector(), want, atol=1e-6):
                fails.append(dict(args=dict(circuit=repr(c), axes=perm), failed="ch-form-reindex", clause="StabilizerStateChForm.reindex(axes) is not the state with its qubits in the order `axes`"))
            try:
                tq = [qs[i] for i in perm]
                st2 = st.copy().transpose_to_qubit_order(tq)
                if not _stabilizes(st2.tableau, want, tq):
                    fails.append(dict(args=dict(circuit=repr(c), axes=perm), failed="tableau-reorder", clause="transpose_to_qubit_order of the tableau state does not stabilize the transposed state"))
            except (AttributeError, NotImplementedError):
                pass
        if len(fails) >= 3:
            break
    return dict(function="cirq-core/cirq/sim/clifford + ops/clifford_gate.py[act_on vs matrices]", case="clifford-circuits",
                bound="seeded Clifford circuits, 1-4 qubits, <= 9 ops from 10 one-qubit / 7 two-qubit gates + from_op_list CliffordGates on permuted qubits",
                cases=cases, distinct=len(distinct), failures=len(fails), exhaustive=False, _fails=fails[:3])
standin_clifford_circuits.prop = "C13"


def standin_single_qubit_group(tier, seed):
    """all 24 single-qubit Clifford gates and all 576 products: exhaustive"""
    import cirq

    gates = cirq.SingleQubitCliffordGate.all_single_qubit_cliffords
    cases, fails = 0, []
    q = cirq.LineQubit(0)
    mats = [cirq.unitary(g) for g in gates]
    for g, u in zip(gates, mats):
        cases += 1
        if not cirq.allclose_up_to_global_phase(cirq.unitary(g ** -1) @ u, np.eye(2), atol=1e-7):
            fails.append(dict(args=dict(gate=repr(g)), failed="inverse", clause="g**-1 * g != I"))
        if not cirq.allclose_up_to_global_phase(cirq.Circuit(cirq.decompose(g.on(q))).unitary(qubit_order=[q]), u, atol=1e-7):
            fails.append(dict(args=dict(gate=repr(g)), failed="decompose", clause="decomposition differs from the gate"))
        back = cirq.SingleQubitCliffordGate.from_unitary(u)
        if back is None or back != g:
            fails.append(dict(args=dict(gate=repr(g)), failed="from_unitary", clause="from_unitary(unitary(g)) != g"))
        pxz = g.to_phased_xz_gate()
        if not cirq.allclose_up_to_global_phase(cirq.unitary(pxz), u, atol=1e-7):
            fails.append(dict(args=dict(gate=repr(g)), failed="to_phased_xz_gate", clause="to_phased_xz_gate differs from the gate"))
        fup = cirq.SingleQubitCliffordGate.from_unitary_with_global_phase(u)
        if fup is None or not np.allclose(cirq.unitary(fup[0]) * fup[1], u, atol=1e-7):
            fails.append(dict(args=dict(gate=repr(g)), failed="from_unitary_with_global_phase", clause="gate * phase != unitary"))
    for (g1, u1), (g2, u2) in itertools.product(zip(gates, mats), repeat=2):
        cases += 1
        m = g1.merged_with(g2)  # g1 then g2
        if not cirq.allclose_up_to_global_phase(cirq.unitary(m), u2 @ u1, atol=1e-7):
            fails.append(dict(args=dict(first=repr(g1), second=repr(g2)), failed="merged_with", clause="merged_with differs from the matrix product"))
            break
    return dict(function="cirq-core/cirq/ops/clifford_gate.py:SingleQubitCliffordGate", case="group-24",
                bound="all 24 gates (inverse, decompose, from_unitary, to_phased_xz_gate) and all 576 ordered products", cases=cases, distinct=cases,
                failures=len(fails), exhaustive=True, _fails=fails[:3])
standin_single_qubit_group.prop = "C13"


def standin_rowsum(tier, seed):
    """_rowsum on all pairs of rows of 1- and 2-qubit tableaux: product of the two Pauli rows (exhaustive for n <= 2)"""
    import cirq
    from contracts.C13_tableau import _pauli

    cases, fails = 0, []
    for n in (1, 2):
        for bits in itertools.product((0, 1), repeat=2 * (2 * n + 1)):
            r1, r2 = bits[0], bits[1]
            row1, row2 = bits[2:2 + 2 * n], bits[2 + 2 * n:2 + 4 * n]
            t = cirq.CliffordTableau(n)
            t._xs[0, :] = [row1[2 * j] for j in range(n)]
            t._zs[0, :] = [row1[2 * j + 1] for j in range(n)]
            t._xs[1, :] = [row2[2 * j] for j in range(n)]
            t._zs[1, :] = [row2[2 * j + 1] for j in range(n)]
            t._rs[0], t._rs[1] = bool(r1), bool(r2)
            P1, P2 = (-1) ** r1 * _pauli(row1), (-1) ** r2 * _pauli(row2)
            t._rowsum(0, 1)
            got = (-1) ** int(t._rs[0]) * _pauli(tuple(int(b) for j in range(n) for b in (t._xs[0, j], t._zs[0, j])))
            want = P2 @ P1
            cases += 1
            commute = np.allclose(P1 @ P2, P2 @ P1)
            # the sign bit is only meaningful when the rows commute (as in Aaronson-Gottesman); x/z bits always xor
            okbits = np.allclose(np.abs(got), np.abs(want))
            ok = okbits and (np.allclose(got, want) if commute else True)
            if not ok:
                fails.append(dict(args=dict(n=n, r1=r1, r2=r2, row1=row1, row2=row2), failed="rowsum", clause="row q1 is not the product of rows q1 and q2"))
    return dict(function="cirq-core/cirq/qis/clifford_tableau.py:CliffordTableau._rowsum", case="rowsum", bound="all row pairs for n = 1, 2 (exhaustive)",
                cases=cases, distinct=cases, failures=len(fails), exhaustive=True, _fails=fails[:3])
standin_rowsum.prop = "C13"
class _ForcedBit:
    """prng whose single allowed draw `randint(2)` returns the forced bit; counts draws"""

    def __init__(self, bit):
        self.bit, self.draws = bit, 0

    def randint(self, *a, **k):
        self.draws += 1
        if a != (2,) or k:
            raise AssertionError(f"unexpected draw randint{a}{k}")
        return self.bit


def _clone(t):
    """the same tableau including its scratch row (CliffordTableau.copy() starts with a clean one)"""
    import cirq

    u = cirq.CliffordTableau(t.n)
    u._xs[:], u._zs[:], u._rs[:] = t._xs, t._zs, t._rs
    return u


def _all_tableaux(n):
    """every valid n-qubit tableau (destabilizers + stabilizers + signs): closure of the initial tableau under the proved update rules"""
    import cirq

    def key(t):
        return t.xs.tobytes() + t.zs.tobytes() + t.rs.tobytes()

    gens = [("apply_h", (q,)) for q in range(n)] + [("apply_z", (q, 0.5)) for q in range(n)] + [("apply_x", (q,)) for q in range(n)] + [("apply_z", (q,)) for q in range(n)]
    gens += [("apply_cx", (a, b)) for a in range(n) for b in range(n) if a != b]
    t0 = cirq.CliffordTableau(n)
    seen, work = {key(t0): t0}, [t0]
    while work:
        t = work.pop()
        for name, args in gens:
            u = t.copy()
            getattr(u, name)(*args)
            k = key(u)
            if k not in seen:
                seen[k] = u
                work.append(u)
    return list(seen.values())


def _row_matrix(t, i):
    from contracts.C13_tableau import _pauli

    n = t.n
    return (-1) ** int(t.rs[i]) * _pauli(tuple(int(b) for j in range(n) for b in (t.xs[i, j], t.zs[i, j])))


def _state_of(t):
    """the state stabilised by rows n..2n-1 (product of the projectors (1+S)/2 applied to basis vectors)"""
    n = t.n
    P = np.eye(2 ** n, dtype=complex)
    for i in range(n, 2 * n):
        P = P @ (np.eye(2 ** n) + _row_matrix(t, i)) / 2
    for b in range(2 ** n):
        v = P[:, b]
        if np.linalg.norm(v) > 1e-9:
            return v / np.linalg.norm(v)
    return None


def _tableau_problem(t):
    """None, or why `t` is not a stabilizer/destabilizer pair: Hermitian rows, stabilizers commute, destabilizers commute, D_i anticommutes with S_i only"""
    n = t.n
    rows = [_row_matrix(t, i) for i in range(2 * n)]
    for i in range(2 * n):
        if not np.allclose(rows[i] @ rows[i], np.eye(2 ** n)):
            return f"row {i} is not a Hermitian Pauli product"
        for j in range(i + 1, 2 * n):
            anti = (j == i + n)
            c = rows[i] @ rows[j] - (-1 if anti else 1) * rows[j] @ rows[i]
            if not np.allclose(c, 0):
                return f"rows {i} and {j} should {'anti' if anti else ''}commute"
    return None


def standin_tableau_measure(tier, seed):
    """CliffordTableau._measure on EVERY valid tableau of 1 and 2 qubits (and seeded 3-qubit ones), each qubit, each forced random bit:
    outcome possible under the Born rule, exactly one fair draw iff the outcome is random, and the new tableau is a valid
    stabilizer/destabilizer pair whose stabilizers stabilise the projected state."""
    rng = random.Random(seed)
    cases, fails = 0, []
    pools = {1: _all_tableaux(1), 2: _all_tableaux(2)}
    t3 = _all_tableaux_sample(3, rng, 40 if tier == "quick" else 600)
    if tier == "quick":
        pools[2] = rng.sample(pools[2], 1500)
    pools[3] = t3
    # histories: the same tableau OBJECT after an earlier measurement (its scratch row holds what that measurement left) and 1-3 more gates
    for n in (1, 2, 3):
        base = pools[n] if (tier != "quick" or n == 1) else rng.sample(pools[n], min(len(pools[n]), 400))
        derived = []
        for t in base:
            for q in range(n):
                u = _clone(t)
                u._measure(q, _ForcedBit(rng.randrange(2)))
                for _ in range(rng.randrange(1, 4)):
                    r = rng.random()
                    if n >= 2 and r < 0.4:
                        a, b = rng.sample(range(n), 2)
                        u.apply_cx(a, b)
                    elif r < 0.7:
                        u.apply_h(rng.randrange(n))
                    elif r < 0.85:
                        u.apply_z(rng.randrange(n), 0.5)
                    else:
                        u.apply_x(rng.randrange(n))
                derived.append(u)
        pools[n] = list(pools[n]) + derived
    for n, pool in pools.items():
        for t in pool:
            psi = _state_of(t)
            for q in range(n):
                Z = np.eye(1)
                for j in range(n):
                    Z = np.kron(Z, np.diag([1, -1]) if j == q else np.eye(2))
                ez = float(np.real(np.vdot(psi, Z @ psi)))
                for bit in (0, 1):
                    u = _clone(t)
                    prng = _ForcedBit(bit)
                    out = u._measure(q, prng)
                    cases += 1
                    args = dict(n=n, xs=t._xs.astype(int).tolist(), zs=t._zs.astype(int).tolist(), rs=t._rs.astype(int).tolist(), qubit=q, forced_bit=bit,
                                note="rows: n destabilizers, n stabilizers, then the scratch row as an earlier measurement left it")
                    p_out = (1 + (1 - 2 * out) * ez) / 2
                    why = None
                    if p_out < 1e-9:
                        why = f"outcome {out} has Born probability 0 (<Z_q> = {ez:+.0f})"
                    elif abs(ez) > 1 - 1e-9 and prng.draws != 0:
                        why = "a deterministic outcome consumed a random draw"
                    elif abs(ez) < 1e-9 and (prng.draws != 1 or out != bit):
                        why = f"a 50/50 outcome must be exactly the one fair draw (draws={prng.draws}, outcome={out}, bit={bit})"
                    else:
                        why = _tableau_problem(u)
                        if why is None:
                            proj = (np.eye(2 ** n) + (1 - 2 * out) * Z) / 2 @ psi
                            proj = proj / np.linalg.norm(proj)
                            for i in range(n, 2 * n):
                                if not np.allclose(_row_matrix(u, i) @ proj, proj, atol=1e-9):
                                    why = f"stabilizer row {i} after the measurement does not stabilise the projected state"
                                    break
                    if why and len(fails) < 3:
                        fails.append(dict(args=args, failed="tableau-measure", clause=f"CliffordTableau._measure({q}): {why}"))
    nf = len(fails)
    return dict(function="cirq-core/cirq/qis/clifford_tableau.py:CliffordTableau._measure", case="tableau-measure",
                bound=("all 24x4... valid tableaux: n=1 (%d), n=2 (%d%s), seeded n=3 (%d), incl. the same object after an earlier measurement + 1-3 gates; each qubit, both values of the random bit"
                       % (len(pools[1]), len(pools[2]), " sampled of 11520" if tier == "quick" else ", exhaustive", len(pools[3]))).replace("all 24x4... ", ""),
                cases=cases, distinct=cases, failures=nf, exhaustive=(tier != "quick"), _fails=fails[:3])
standin_tableau_measure.prop = "C13"


def _all_tableaux_sample(n, rng, count):
    import cirq

    out = []
    for _ in range(count):
        t = cirq.CliffordTableau(n)
        for _ in range(rng.randrange(3, 14)):
            r = rng.random()
            if r < 0.4:
                a, b = rng.sample(range(n), 2)
                t.apply_cx(a, b)
            elif r < 0.6:
                t.apply_h(rng.randrange(n))
            elif r < 0.8:
                t.apply_z(rng.randrange(n), rng.choice([0.5, 1, 1.5]))
            else:
                t.apply_x(rng.randrange(n), rng.choice([0.5, 1, 1.5]))
        out.append(t)
    return out


def standin_sampling_statistics(tier, seed):
    """repeated sampling of a stabilizer state (sample / step.sample / sample_measurement_ops with every kind of seed): the empirical
    distribution over N repetitions stays within 6 standard deviations of the Born probabilities — in particular repetitions are not
    copies of each other and independent qubits are not correlated.  (A correct sampler fails this with probability < 1e-7 per bin.)"""
    import cirq

    cases, fails = 0, []
    N = 400
    q = cirq.LineQubit.range(3)
    scenarios = {
        "|+>|+>": (cirq.Circuit(cirq.H(q[0]), cirq.H(q[1])), q[:2], {(a, b): 0.25 for a in (0, 1) for b in (0, 1)}),
        "Bell": (cirq.Circuit(cirq.H(q[0]), cirq.CNOT(q[0], q[1])), q[:2], {(0, 0): 0.5, (1, 1): 0.5}),
        "|+>|1>|+>": (cirq.Circuit(cirq.H(q[0]), cirq.X(q[1]), cirq.H(q[2])), q[:3], {(a, 1, b): 0.25 for a in (0, 1) for b in (0, 1)}),
        "GHZ, S on one": (cirq.Circuit(cirq.H(q[0]), cirq.CNOT(q[0], q[1]), cirq.CNOT(q[1], q[2]), cirq.S(q[2])), q[:3], {(0, 0, 0): 0.5, (1, 1, 1): 0.5}),
    }

    def judge(label, how, counts, probs):
        nonlocal cases
        cases += 1
        total = sum(counts.values())
        for k in set(counts) | set(probs):
            p = probs.get(k, 0.0)
            sd = (total * p * (1 - p)) ** 0.5
            if abs(counts.get(k, 0) - total * p) > 6 * sd + 1e-9:
                fails.append(dict(args=dict(state=label, entry_point=how, repetitions=total, counts={str(k_): v for k_, v in counts.items()}), failed="sampling-statistics",
                                  clause=f"{how} on {label}: outcome {k} seen {counts.get(k, 0)} times in {total}, Born probability {p} (more than 6 sigma off)"))
                return

    def tally(arr):
        c = {}
        for row in np.asarray(arr).astype(int).tolist():
            c[tuple(row)] = c.get(tuple(row), 0) + 1
        return c

    seeds = [0, 7, 1234, None, np.random.RandomState(5)]
    for label, (circ, qs, probs) in scenarios.items():
        n = len(qs)
        for sd in seeds if tier != "quick" else seeds[:1] + seeds[3:]:
            sname = "RandomState" if isinstance(sd, np.random.RandomState) else repr(sd)
            # the state representations themselves
            t = cirq.CliffordTableau(n)
            st = cirq.CliffordTableauSimulationState(t, qubits=qs, prng=np.random.RandomState(0))
            ch = cirq.StabilizerChFormSimulationState(qubits=qs, prng=np.random.RandomState(0), initial_state=0)
            for op in circ.all_operations():
                cirq.act_on(op, st)
                cirq.act_on(op, ch)
            for how, fn in ((f"CliffordTableau.sample(seed={sname})", lambda: st.tableau.sample(list(range(n)), repetitions=N, seed=sd)),
                            (f"StabilizerStateChForm.sample(seed={sname})", lambda: ch.state.sample(list(range(n)), repetitions=N, seed=sd)),
                            (f"CliffordTableauSimulationState.sample(seed={sname})", lambda: st.sample(qs, repetitions=N, seed=sd)),
                            (f"StabilizerChFormSimulationState.sample(seed={sname})", lambda: ch.sample(qs, repetitions=N, seed=sd))):
                try:
                    judge(label, how, tally(fn()), probs)
                except (AttributeError, NotImplementedError, TypeError):
                    continue
            # simulator step results, joint and split
            for split in (False, True):
                for simname, sim in (("CliffordSimulator", cirq.CliffordSimulator(split_untangled_states=split)), ("Simulator", cirq.Simulator(split_untangled_states=split)),
                                     ("DensityMatrixSimulator", cirq.DensityMatrixSimulator(split_untangled_states=split))):
                    step = list(sim.simulate_moment_steps(circ, qubit_order=qs))[-1]
                    try:
                        judge(label, f"{simname}(split_untangled_states={split}) step.sample(seed={sname})", tally(step.sample(list(qs), repetitions=N, seed=sd)), probs)
                    except (NotImplementedError, TypeError):
                        continue
        if len(fails) >= 4:
            break
    # readout confusion is drawn independently of the sampled bits, whatever kind of seed is given: on a Bell pair the confused bit of one
    # half differs from the plain bit of the other half in a quarter of the repetitions
    bell = cirq.Circuit(cirq.H(q[0]), cirq.CNOT(q[0], q[1]))
    conf = cirq.measure(q[0], key="a", confusion_map={(0,): np.array([[0.75, 0.25], [0.25, 0.75]])})
    plain = cirq.measure(q[1], key="b")
    for simname, sim in (("Simulator", cirq.Simulator()), ("DensityMatrixSimulator", cirq.DensityMatrixSimulator()), ("Simulator(split_untangled_states=False)", cirq.Simulator(split_untangled_states=False))):
        step = list(sim.simulate_moment_steps(bell, qubit_order=q[:2]))[-1]
        for sd in seeds if tier != "quick" else seeds[:2] + seeds[3:]:
            sname = "RandomState" if isinstance(sd, np.random.RandomState) else repr(sd)
            res = step.sample_measurement_ops([conf, plain], repetitions=4 * N, seed=sd)
            differ = (res["a"][:, 0] != res["b"][:, 0]).astype(int)
            judge("Bell pair, 25% readout confusion on one half", f"{simname} step.sample_measurement_ops(seed={sname})", {(0,): int((differ == 0).sum()), (1,): int(differ.sum())}, {(0,): 0.75, (1,): 0.25})
    # whole runs (repetitions of a circuit with resets, mid-circuit measurements and feed-forward) through every stabilizer sampler:
    # per-repetition randomness includes the branch a RESET selects, not only measurement results
    from contracts import refsim

    runs = {
        "Bell, reset one half, measure the other": cirq.Circuit(cirq.H(q[0]), cirq.CNOT(q[0], q[1]), cirq.reset(q[0]), cirq.measure(q[1], key="m")),
        "GHZ, reset the middle, measure the ends": cirq.Circuit(cirq.H(q[0]), cirq.CNOT(q[0], q[1]), cirq.CNOT(q[1], q[2]), cirq.reset(q[1]), cirq.measure(q[0], q[2], key="m")),
        "|+>, reset, H, measure": cirq.Circuit(cirq.H(q[0]), cirq.reset(q[0]), cirq.H(q[0]), cirq.measure(q[0], key="m")),
        "Bell, measure one, feed forward": cirq.Circuit(cirq.H(q[0]), cirq.CNOT(q[0], q[1]), cirq.measure(q[0], key="a"), cirq.X(q[1]).with_classical_controls("a"), cirq.H(q[2]), cirq.measure(q[1], q[2], key="m")),
        "reset of an entangled qubit after a measurement": cirq.Circuit(cirq.H(q[0]), cirq.measure(q[0], key="a"), cirq.H(q[1]), cirq.CNOT(q[1], q[2]), cirq.reset(q[1]), cirq.measure(q[2], key="m")),
    }
    for label, circ in runs.items():
        qs_ = sorted(circ.all_qubits())
        want = {}
        for rec, p in refsim.ref_distribution(circ, qs_).items():
            kk = tuple(int(d) for _, rows in rec for row in rows for d in row)
            want[kk] = want.get(kk, 0.0) + p
        for how, mk in (("StabilizerSampler", lambda sd: cirq.StabilizerSampler(seed=sd)), ("CliffordSimulator", lambda sd: cirq.CliffordSimulator(seed=sd)),
                        ("CliffordSimulator(split_untangled_states=False)", lambda sd: cirq.CliffordSimulator(seed=sd, split_untangled_states=False))):
            for sd in (0, 1234) if tier == "quick" else (0, 7, 1234, None):
                res = mk(sd).run(circ, repetitions=N)
                keys = sorted(res.records)
                rows = np.concatenate([res.records[k].reshape(N, -1) for k in keys], axis=1)
                judge(label, f"{how}.run(seed={sd!r})", tally(rows), want)
    seen, uniq = set(), []
    for f in fails:
        k = f["args"]["entry_point"].split("(seed")[0]
        if k not in seen:
            seen.add(k)
            uniq.append(f)
    return dict(function="cirq-core/cirq/qis/quantum_state_representation.py:QuantumStateRepresentation.sample + sim step.sample", case="sampling-statistics",
                bound=f"4 stabilizer states x integer / None / RandomState seeds x tableau, CH form, their simulation states and 3 simulators' step results (joint and split); 5 circuits with resets / mid-circuit measurements / feed-forward run through StabilizerSampler and CliffordSimulator; {N} repetitions, 6-sigma bounds",
                cases=cases, distinct=cases, failures=len(fails), exhaustive=False, _fails=uniq[:4])
standin_sampling_statistics.prop = "C13"


def standin_clifford_state_maps(tier, seed):
    """cirq.CliffordState: the axis of a qubit is the index its qubit_map gives, whatever the order the map was written in"""
    import cirq
    from contracts import refsim

    rng = random.Random(seed)
    cases, fails = 0, []
    q = cirq.LineQubit.range(3)
    gates1, gates2 = [cirq.X, cirq.Y, cirq.Z, cirq.H, cirq.S], [cirq.CNOT, cirq.CZ]
    for _ in range(30 if tier == "quick" else 300):
        n = rng.choice([2, 3])
        qs = list(q[:n])
        axes = rng.sample(range(n), n)                      # qubit -> axis, any permutation
        items = list(zip(qs, axes))
        rng.shuffle(items)                                  # written in any order
        ops = []
        for _ in range(rng.randrange(1, 6)):
            ops.append(rng.choice(gates1)(rng.choice(qs)) if rng.random() < 0.6 else rng.choice(gates2)(*rng.sample(qs, 2)))
        st = cirq.CliffordState(qubit_map=dict(items))
        for op in ops:
            st.apply_unitary(op)
        order = [x for x, _ in sorted(zip(qs, axes), key=lambda t: t[1])]
        want = refsim.ref_unitary(cirq.Circuit(ops), order)[:, 0]
        cases += 1
        if not np.allclose(st.state_vector(), want, atol=1e-7):
            fails.append(dict(args=dict(qubit_map=repr(dict(items)), operations=repr(ops)), failed="clifford-state-axes", clause="state_vector() is the circuit's state with each qubit on the axis its qubit_map names"))
            continue
        # a copy is independent of its source, and a measurement that is asked not to collapse leaves the state as it was
        before = st.state_vector().copy()
        cp = st.copy()
        cp.apply_unitary(rng.choice(gates1)(rng.choice(qs)))
        cp.apply_unitary(cirq.H(qs[0]))
        cases += 1
        if not np.allclose(st.state_vector(), before, atol=1e-9):
            fails.append(dict(args=dict(qubit_map=repr(dict(items)), operations=repr(ops)), failed="clifford-state-copy", clause="evolving a copy() changed the state it was copied from"))
            continue
        rec0 = {}
        st.apply_measurement(cirq.measure(*qs, key="nc"), rec0, np.random.RandomState(rng.randrange(1000)), collapse_state_vector=False)
        if not np.allclose(st.state_vector(), before, atol=1e-9):
            fails.append(dict(args=dict(qubit_map=repr(dict(items)), operations=repr(ops)), failed="clifford-state-copy", clause="apply_measurement(collapse_state_vector=False) changed the state"))
            continue
        # a measurement of a basis state reads the digits of the named qubits, in the order the measurement lists them
        st2 = cirq.CliffordState(qubit_map=dict(items))
        flips = [x for x in qs if rng.random() < 0.5]
        for x in flips:
            st2.apply_unitary(cirq.X(x))
        mq = rng.sample(qs, rng.randrange(1, n + 1))
        rec = {}
        st2.apply_measurement(cirq.measure(*mq, key="k"), rec, np.random.RandomState(0))
        cases += 1
        if [int(b) for b in rec["k"]] != [int(x in flips) for x in mq]:
            fails.append(dict(args=dict(qubit_map=repr(dict(items)), flipped=repr(flips), measured=repr(mq), got=[int(b) for b in rec["k"]]), failed="clifford-state-measure", clause="measuring a basis state returns the bits of the measured qubits"))
    # the stabilizer route is chosen only for circuits it can run: whatever claims a stabilizer effect on qudits must run on the stabilizer
    # simulator, and cirq.sample (which picks the simulator by that claim) works on a qutrit circuit with a reset
    t3 = cirq.LineQid(0, dimension=3)
    shift3 = cirq.MatrixGate(np.roll(np.eye(3), 1, axis=0), qid_shape=(3,))
    for circ, want in ((cirq.Circuit(cirq.ResetChannel(3)(t3), cirq.measure(t3, key="m")), 0), (cirq.Circuit(shift3(t3), cirq.ResetChannel(3)(t3), cirq.measure(t3, key="m")), 0),
                       (cirq.Circuit(cirq.ResetChannel(3)(t3), shift3(t3), shift3(t3), cirq.measure(t3, key="m")), 2)):
        cases += 1
        try:
            got = int(cirq.sample(circ).measurements["m"][0][0])
            if got != want:
                fails.append(dict(args=dict(circuit=repr(circ), got=got), failed="qudit-sample", clause=f"cirq.sample measured {got}, expected {want}"))
        except Exception as ex:
            fails.append(dict(args=dict(circuit=repr(circ)), failed="qudit-sample", clause=f"cirq.sample raised {type(ex).__name__}: {ex} (a qudit operation claims a stabilizer effect the stabilizer simulator cannot run)"))
    # ... and on qubits: Clifford operations for which the stabilizer simulator has no update rule still sample correctly through cirq.sample
    a_, b_ = cirq.LineQubit.range(2)
    for g in (cirq.MatrixGate(cirq.unitary(cirq.CZ)), cirq.PhasedISwapPowGate(phase_exponent=0.25), cirq.givens(np.pi / 2), cirq.MatrixGate(cirq.unitary(cirq.CNOT))):
        circ = cirq.Circuit(cirq.X(a_), g.on(a_, b_), cirq.measure(a_, b_, key="m"))
        cases += 1
        try:
            rows = {tuple(int(x) for x in r) for r in cirq.sample(circ, repetitions=5, seed=1).measurements["m"]}
            psi = cirq.Circuit(cirq.X(a_), g.on(a_, b_)).final_state_vector(qubit_order=[a_, b_])
            allowed = {tuple(int(x) for x in format(i, "02b")) for i in range(4) if abs(psi[i]) > 1e-6}
            if not rows <= allowed:
                fails.append(dict(args=dict(circuit=repr(circ)[:600], got=sorted(rows)), failed="clifford-sample", clause=f"cirq.sample returned outcomes {sorted(rows)} outside the support {sorted(allowed)} of the state"))
        except Exception as ex:
            fails.append(dict(args=dict(circuit=repr(circ)[:600]), failed="clifford-sample", clause=f"cirq.sample raised {type(ex).__name__}: {str(ex)[:120]} on a circuit of Clifford operations"))
    return dict(function="cirq-core/cirq/sim/clifford/clifford_simulator.py:CliffordState", case="clifford-state-maps", bound="seeded 2-3 qubit Clifford sequences x every qubit->axis permutation x shuffled map order",
                cases=cases, distinct=cases, failures=len(fails), exhaustive=False, _fails=fails[:3])
standin_clifford_state_maps.prop = "C13"


def standin_clifford_decompositions(tier, seed):
    """a CliffordGate built from a list of operations decomposes into operations with the same matrix (up to global phase) and the same tableau:
    every sequence of <= 3 operations from a 9-operation two-qubit alphabet (incl. SWAP / ISWAP, which move Z-type rows to the last qubit) and
    seeded sequences on 3 qubits"""
    import itertools

    import cirq

    rng = random.Random(seed + 63)
    cases, fails = 0, []
    a, b, c = cirq.LineQubit.range(3)
    alpha2 = [cirq.H(a), cirq.H(b), cirq.S(a), cirq.S(b), cirq.CNOT(a, b), cirq.CNOT(b, a), cirq.CZ(a, b), cirq.SWAP(a, b), cirq.ISWAP(a, b)]
    alpha3 = alpha2 + [cirq.H(c), cirq.S(c), cirq.CNOT(b, c), cirq.CNOT(c, a), cirq.SWAP(a, c), cirq.SWAP(b, c), cirq.ISWAP(b, c), cirq.CZ(a, c)]
    seqs = [(list(sq), [a, b]) for n in (1, 2, 3) for sq in itertools.product(alpha2, repeat=n)]
    seqs += [([rng.choice(alpha3) for _ in range(rng.randrange(2, 8))], [a, b, c]) for _ in range(80 if tier == "quick" else 1500)]
    for ops_, qs in seqs:
        cases += 1
        try:
            g = cirq.CliffordGate.from_op_list(ops_, qs)
            dec = cirq.decompose_once(g.on(*qs))
            got = cirq.Circuit(dec).unitary(qubit_order=qs, qubits_that_should_be_present=qs)
            back = cirq.CliffordGate.from_op_list(dec, qs)
        except Exception as ex:
            fails.append(dict(args=dict(operations=repr(ops_)), failed="clifford-decomposition-raised", clause=f"{ex!r}"))
            continue
        want = cirq.Circuit(ops_).unitary(qubit_order=qs, qubits_that_should_be_present=qs)
        if not cirq.allclose_up_to_global_phase(got, want, atol=1e-7):
            fails.append(dict(args=dict(operations=repr(ops_), decomposition=repr(dec)[:800]), failed="clifford-decomposition", clause="the decomposition of CliffordGate.from_op_list(operations) does not have the operations' matrix (up to global phase)"))
        elif back.clifford_tableau != g.clifford_tableau:
            fails.append(dict(args=dict(operations=repr(ops_), decomposition=repr(dec)[:800]), failed="clifford-decomposition", clause="the decomposition of the gate has a different tableau than the gate"))
        if len(fails) >= 3:
            break
    return dict(function="cirq-core/cirq/transformers/analytical_decompositions/clifford_decomposition.py:decompose_clifford_tableau_to_operations", case="clifford-decompositions",
                bound="all 819 sequences of <= 3 operations from a 9-operation two-qubit Clifford alphabet + seeded 3-qubit sequences of 2-7 operations", cases=cases, distinct=cases, failures=len(fails), exhaustive=False, _fails=fails[:3])
standin_clifford_decompositions.prop = "C13"

STANDINS = [standin_clifford_circuits, standin_single_qubit_group, standin_rowsum, standin_tableau_measure, standin_sampling_statistics, standin_clifford_state_maps, standin_clifford_decompositions]


def _replay_tableau(ob, seed):
    """concrete witness for a failed column-rule obligation: random tableau, real method, compare with U P U^dagger row by row"""
    import cirq
    from contracts.C13_tableau import _spec_matrix, conjugation_table

    if not str(ob.backend).startswith("boolcol") or not ob.concrete or not ob.case:
        return None
    name = ob.case.replace("apply_", "")
    e, axes = ob.concrete["exponent"], ob.concrete["axes"]
    k = len(axes)
    rng = np.random.RandomState(seed)
    n = 4
    t = cirq.CliffordTableau(n)
    t._xs[:-1, :] = rng.rand(2 * n, n) < 0.5
    t._zs[:-1, :] = rng.rand(2 * n, n) < 0.5
    t._rs[:-1] = rng.rand(2 * n) < 0.5
    before = (t.xs.copy(), t.zs.copy(), t.rs.copy())
    table = conjugation_table(_spec_matrix(name, e), k)
    getattr(t, f"apply_{name}")(*axes, e)
    for row in range(2 * n):
        bits = tuple(int(b) for a in axes for b in (before[0][row, a], before[1][row, a]))
        bits2, flip = table[bits]
        got = tuple(int(b) for a in axes for b in (t.xs[row, a], t.zs[row, a]))
        if got != tuple(bits2) or int(t.rs[row]) != (int(before[2][row]) ^ flip):
            return dict(args=dict(method=f"apply_{name}", exponent=e, axes=axes, row=row, row_bits_before=bits, sign_before=int(before[2][row])),
                        failed="tableau-update", clause=f"apply_{name}({axes}, {e}) maps row bits {bits} to {got} sign {int(t.rs[row])}; U P U^dagger gives {tuple(bits2)} sign {int(before[2][row]) ^ flip}")
    return None


REPLAYERS = {"cirq-core/cirq/qis/clifford_tableau.py:CliffordTableau.apply_": _replay_tableau}
NOT_COVERED = [
    "CliffordTableau._rowsum for general n and _measure: exhaustive for n <= 2 / bounded only (no inductive proof)",
    "CH-form update rules (stabilizer_state_ch_form.py), CliffordGate composition/inverse/from_clifford_tableau, two-qubit Clifford group: bounded only",
]
ASSUMPTIONS = [
    "numpy element-wise boolean operators act row by row (the column proxies admit nothing else)",
    "spec orientation: a tableau row P becomes U P U^dagger",
]
EXPLANATION = ("C13: the six tableau update rules are decided for every tableau (element-wise column code run on the complete truth table of one "
               "row, expected rows from conjugating Paulis by the documented matrices); the rest of the Clifford subsystem is bounded/exhaustive-small. ")
