"""C18 — bounded stand-ins for the result views (ResultDict): NOT counted as proved.

Every view of one set of records must describe the same repetitions x instances x qubits digits: records,
measurements, data frame of big-endian ints, histogram (vectorised path and fold path), multi-key histogram, str,
concatenation and JSON / bit-packed storage.  Register widths straddle the machine-integer boundaries on purpose."""
import collections
import random

F = "cirq-core/cirq/study/result.py"
WIDTHS_QUICK = [1, 2, 3, 8, 9, 31, 32, 33, 62, 63, 64, 65, 70]


def _be_int(row, bases=None):
    v = 0
    for i, d in enumerate(row):
        v = v * (2 if bases is None else int(bases[i])) + int(d)
    return v


def standin_views(tier, seed):
    import numpy as np
    import cirq

    rng = random.Random(seed)
    cases, fails, distinct = 0, [], set()

    def bad(what, **args):
        fails.append(dict(args=args, failed=what, clause=what))

    widths = WIDTHS_QUICK if tier == "quick" else WIDTHS_QUICK + [4, 5, 16, 17, 127, 128, 200]
    for n in widths:
        for dtype in (np.int8, bool, np.int64, object):
            for trial in range(2 if tier == "quick" else 6):
                reps = rng.choice([0, 1, 2, 5])
                rows = [[rng.randrange(2) for _ in range(n)] for _ in range(reps)]
                if rows and trial == 0:
                    rows[0] = [1] * n  # all-ones: the largest value of the register, MSB set
                if rows and trial == 1:
                    rows[-1] = [1] + [0] * (n - 1)
                arr = np.array(rows, dtype=dtype).reshape(reps, n)
                arr2 = np.array([[rng.randrange(2)] for _ in range(reps)], dtype=np.int8).reshape(reps, 1)
                r = cirq.ResultDict(params=cirq.ParamResolver({}), measurements={"m": arr, "k": arr2})
                want = [_be_int(row) for row in rows]
                cases += 1
                distinct.add((n, str(dtype), tuple(map(tuple, rows))))
                ctx = dict(n_qubits=n, dtype=str(np.dtype(dtype)) if dtype is not object else "object", rows=rows if n <= 12 else f"{reps} rows, first={want[:1]}")
                got = [int(x) for x in r.data["m"]]
                if got != want:
                    bad("data frame column != big-endian ints of the records", got=got[:2], want=want[:2], **ctx)
                h_want = collections.Counter(want)
                for label, kw in (("histogram()", {}), ("histogram(fold_base=2)", dict(fold_base=2)),
                                  ("histogram(fold_base=[2]*n)", dict(fold_base=[2] * n))):
                    h = r.histogram(key="m", **kw)
                    if {int(k): v for k, v in h.items()} != dict(h_want) or any(type(k).__module__ == "numpy" and int(k) != k for k in h):
                        bad(f"{label} disagrees with the data frame / records", got=repr(h)[:200], want=repr(h_want)[:200], **ctx)
                mh = r.multi_measurement_histogram(keys=["m", "k"])
                mh_want = collections.Counter((w, int(b[0])) for w, b in zip(want, arr2))
                if {tuple(int(x) for x in k): v for k, v in mh.items()} != dict(mh_want):
                    bad("multi_measurement_histogram disagrees with the records", **ctx)
                if reps:
                    s = str(r)
                    col0 = "".join(str(int(row[0])) for row in rows)
                    if f"m={col0}" not in s.replace("\n", " "):
                        bad("str(result): first qubit's bitstring is not the first column of the records", got=s[:120], **ctx)
                if dtype is not object:
                    r2 = cirq.read_json(json_text=cirq.to_json(r))
                    if r2 != r or not np.array_equal(r2.measurements["m"], arr):
                        bad("JSON round trip changed the records", **ctx)
                both = r + r
                if both.repetitions != 2 * reps or [int(x) for x in both.data["m"]] != want + want:
                    bad("r + r is not the concatenation of the repetitions", **ctx)
                if len(fails) >= 3:
                    break
    # qudits: fold_base with per-digit dimensions, through both histogram paths
    for dims in ([3], [2, 3], [3, 4, 2], [3] * 41, [4] * 33):
        reps = 3
        rows = [[rng.randrange(d) for d in dims] for _ in range(reps)]
        rows[0] = [d - 1 for d in dims]
        arr = np.array(rows, dtype=np.int8)
        r = cirq.ResultDict(params=cirq.ParamResolver({}), measurements={"m": arr})
        want = collections.Counter(_be_int(row, dims) for row in rows)
        h = r.histogram(key="m", fold_base=dims)
        cases += 1
        distinct.add(("qudit", tuple(dims), tuple(map(tuple, rows))))
        if {int(k): v for k, v in h.items()} != dict(want):
            bad("qudit histogram(fold_base=dims) disagrees with the mixed-radix value of the records", dims=dims if len(dims) < 6 else f"{dims[0]} x {len(dims)}",
                got=repr(h)[:160], want=repr(want)[:160])
    return dict(function=F + ":ResultDict[data, histogram, multi_measurement_histogram, str, __add__, JSON]", case="views",
                bound=f"widths {widths} x dtypes int8/bool/int64/object x repetitions {{0,1,2,5}} (all-ones and MSB-only rows forced), qudit dims up to 3^41 / 4^33",
                cases=cases, distinct=len(distinct), failures=len(fails), exhaustive=False, _fails=fails[:3])
standin_views.prop = "C18"


def standin_numpy_digits(tier, seed):
    """The digit functions are called with numpy scalars in practice (measurement arrays): same contract, numpy inputs."""
    import numpy as np
    import cirq

    rng = random.Random(seed)
    cases, fails, distinct = 0, [], set()
    for dtype in (np.int8, np.uint8, np.int32, np.int64, bool):
        for n in (1, 7, 8, 9, 31, 32, 33, 63, 64, 65, 70):
            for _ in range(3):
                row = [1] * n if _ == 0 else [rng.randrange(2) for _ in range(n)]
                arr = np.array(row, dtype=dtype)
                want = _be_int(row)
                cases += 1
                distinct.add((str(dtype), tuple(row)))
                for label, f in (("big_endian_bits_to_int", lambda: cirq.big_endian_bits_to_int(arr)),
                                 ("big_endian_digits_to_int(base=2)", lambda: cirq.big_endian_digits_to_int(arr, base=2)),
                                 ("big_endian_digits_to_int(base=[2]*n)", lambda: cirq.big_endian_digits_to_int(arr, base=[2] * n))):
                    got = f()
                    if int(got) != want:
                        fails.append(dict(args=dict(digits=f"np.array({row if n < 12 else '[1]*%d' % n if row == [1]*n else '...'}, dtype={np.dtype(dtype)})"),
                                          failed=label, clause=f"{label} returned {got!r}, the digits denote {want}"))
                if len(fails) >= 3:
                    break
    return dict(function="cirq-core/cirq/value/digits.py:big_endian_{bits,digits}_to_int[numpy scalar digits]", case="numpy-inputs",
                bound="dtypes int8/uint8/int32/int64/bool x lengths {1,7,8,9,31,32,33,63,64,65,70} x (all-ones + 2 seeded rows)",
                cases=cases, distinct=len(distinct), failures=len(fails), exhaustive=False, _fails=fails[:3])
standin_numpy_digits.prop = "C18"

def standin_state_histogram(tier, seed):
    """cirq.vis.get_state_histogram: counts per big-endian state index over all measured bits, for narrow record dtypes and wide registers"""
    import random

    import numpy as np

    import cirq
    from cirq.vis import state_histogram as sh

    rng = random.Random(seed + 3)
    cases, fails = 0, []
    for n_bits in (1, 3, 7, 8, 9, 10, 12):
        for dtype in (np.int8, np.uint8, bool, np.int32, np.int64):
            for split in ((n_bits,), (n_bits // 2, n_bits - n_bits // 2)) if n_bits > 1 else ((1,),):
                reps = 30
                rows = [[rng.randrange(2) for _ in range(n_bits)] for _ in range(reps)]
                rows[0] = [1] + [0] * (n_bits - 1)  # the highest bit alone
                rows[1] = [1] * n_bits
                arr = np.array(rows)
                meas, off = {}, 0
                for i, w in enumerate(split):
                    meas[f"k{i}"] = arr[:, off:off + w].astype(dtype)
                    off += w
                res = cirq.ResultDict(params=cirq.ParamResolver({}), measurements=meas)
                cases += 1
                want = np.zeros(2 ** n_bits)
                for r in rows:
                    want[int("".join(map(str, r)), 2)] += 1
                try:
                    got = sh.get_state_histogram(res)
                except Exception as ex:
                    fails.append(dict(args=dict(bits=n_bits, dtype=np.dtype(dtype).name, keys=split), failed="state-histogram", clause=f"get_state_histogram raised {ex!r}"))
                    continue
                if got.shape != want.shape or not np.array_equal(got, want):
                    fails.append(dict(args=dict(bits=n_bits, dtype=np.dtype(dtype).name, keys=split), failed="state-histogram",
                                      clause="get_state_histogram counts differ from counting the big-endian bit strings of the records"))
    # and on a real simulator result (int8 records) with 9 qubits, highest qubit set
    qs = cirq.LineQubit.range(9)
    r = cirq.Simulator(seed=1).run(cirq.Circuit(cirq.X(qs[0]), cirq.H(qs[8]), cirq.measure(*qs, key="m")), repetitions=20)
    cases += 1
    h = sh.get_state_histogram(r)
    if h[256] + h[257] != 20:
        fails.append(dict(args=dict(circuit="X(q0), H(q8), measure(q0..q8)"), failed="state-histogram", clause="simulator result with the highest of 9 qubits set is not counted in bins 256/257"))
    return dict(function="cirq-core/cirq/vis/state_histogram.py:get_state_histogram", case="state-histogram", bound="1-12 measured bits x 5 record dtypes x 1-2 keys, 30 repetitions incl. highest bit set; one simulator result",
                cases=cases, distinct=cases, failures=len(fails), exhaustive=False, _fails=fails[:3])
standin_state_histogram.prop = "C18"

def standin_large_results(tier, seed):
    """histograms of results with more repetitions than any internal batch size: counts sum to the repetitions and equal a direct count"""
    import collections
    import random

    import numpy as np

    import cirq

    rng = random.Random(seed + 5)
    cases, fails = 0, []
    for reps in (49_999, 50_000, 50_001, 65_000, 100_001) + ((250_000,) if tier == "thorough" else ()):
        for width, base in ((1, None), (3, None), (2, [3, 2])):
            dims = base or [2] * width
            arr = np.array([[rng.randrange(d) for d in dims] for _ in range(1000)], dtype=np.int8)
            arr = np.tile(arr, (reps // 1000 + 1, 1))[:reps]
            res = cirq.ResultDict(params=cirq.ParamResolver({}), measurements={"m": arr})
            cases += 1
            want = collections.Counter()
            mult = [int(np.prod(dims[i + 1:])) for i in range(len(dims))]
            vals, cnts = np.unique(arr.astype(np.int64) @ np.array(mult, dtype=np.int64), return_counts=True)
            for v, c_ in zip(vals, cnts):
                want[int(v)] = int(c_)
            got = res.histogram(key="m", fold_base=base) if base else res.histogram(key="m")
            if dict(got) != dict(want) or sum(got.values()) != reps:
                fails.append(dict(args=dict(repetitions=reps, width=width, fold_base=base), failed="large-histogram",
                                  clause=f"histogram() counts sum to {sum(got.values())} for {reps} repetitions / differ from a direct count"))
            mm = res.multi_measurement_histogram(keys=["m"])
            if sum(mm.values()) != reps:
                fails.append(dict(args=dict(repetitions=reps, width=width), failed="large-histogram", clause="multi_measurement_histogram counts do not sum to the repetitions"))
    return dict(function="cirq-core/cirq/study/result.py:Result.histogram[large repetition counts]", case="large-results", bound="49,999 .. 100,001 (250,000 in thorough) repetitions x 3 register shapes",
                cases=cases, distinct=cases, failures=len(fails), exhaustive=False, _fails=fails[:3])
standin_large_results.prop = "C18"

def standin_packed_storage(tier, seed):
    """bit-packed storage of records (Quantum Engine result messages; shared with C16): per-qubit packed bits decoded by hand, and the
    round trip through results_to_proto / results_from_proto, for permuted qubit orders, several instances and lengths around byte boundaries"""
    from contracts.C16_roundtrips import standin_results_roundtrip as f

    r = dict(f(tier, seed))
    r["case"] = "packed-storage"
    return r
standin_packed_storage.prop = "C18"
def standin_sample_frames(tier, seed):
    """the sampler's convenience entry points (sample / run_sweep over mixed-order sweepables; shared with C10): every row and result is labelled
    with the assignment of the run it came from, in the documented order"""
    from contracts.C10_standins import standin_sample_frames as f

    return f(tier, seed)
standin_sample_frames.prop = "C18"

def standin_batches(tier, seed):
    """run_batch: for every program of the batch, in the order the programs were given (list or mapping, any key order), the results of that
    program's own sweep and repetition count, for every jobs_per_batch; every view of each result tells the same story"""
    import itertools
    import random

    import cirq
    import sympy

    try:
        import cirq_google as cg
        from cirq_google.engine.simulated_local_processor import SimulatedLocalProcessor
    except ImportError:
        return dict(function="cirq-google/cirq_google/engine/processor_sampler.py:ProcessorSampler.run_batch", case="batches", bound="cirq_google not importable", cases=0, distinct=0, failures=0, exhaustive=False, _fails=[])
    rng = random.Random(seed + 77)
    qs = cirq.LineQubit.range(3)
    v = sympy.Symbol("v")

    def prog(bits):
        return cirq.Circuit([cirq.X(q) for q, b_ in zip(qs, bits) if b_], cirq.X(qs[2]) ** v, cirq.measure(*qs, key="m"))

    cases, fails = 0, []
    names = ["zeta", "alpha", "mu", "beta"]
    for trial in range(6 if tier == "quick" else 40):
        k = rng.randrange(2, 5)
        keys = rng.sample(names, k)                                  # mapping keys in any order
        bits = [tuple(rng.randrange(2) for _ in range(2)) + (0,) for _ in range(k)]
        sweeps = [cirq.Points("v", rng.choice([[0, 1], [1], [1, 0, 1]])) for _ in range(k)]
        reps = rng.choice([3, [rng.randrange(1, 5) for _ in range(k)]])
        for as_mapping, jpb in itertools.product((False, True), (1, 2, 3, 5)):
            programs = {n: prog(b_) for n, b_ in zip(keys, bits)} if as_mapping else [prog(b_) for b_ in bits]
            cases += 1
            sampler = cg.ProcessorSampler(processor=SimulatedLocalProcessor(processor_id="p", sampler=cirq.Simulator(seed=1)), jobs_per_batch=jpb)
            args = dict(programs="mapping with keys " + repr(keys) if as_mapping else "list", jobs_per_batch=jpb, prepared_bits=bits, sweeps=[repr(s_) for s_ in sweeps], repetitions=reps)
            try:
                out = sampler.run_batch(programs, sweeps, reps)
            except Exception as ex:
                fails.append(dict(args=args, failed="run_batch-raised", clause=f"{ex!r}"))
                continue
            problem = None
            if len(out) != k:
                problem = f"{len(out)} result lists for {k} programs"
            for i in range(min(k, len(out))):
                r_i = reps if isinstance(reps, int) else reps[i]
                pts = list(sweeps[i])
                if len(out[i]) != len(pts):
                    problem = problem or f"program #{i}: {len(out[i])} results for {len(pts)} sweep points"
                    continue
                for res, pr in zip(out[i], pts):
                    want = [list(bits[i][:2]) + [int(pr.value_of(v))]] * r_i
                    got = res.measurements["m"].astype(int).tolist()
                    if got != want or res.params != pr:
                        problem = problem or f"program #{i} at {dict(pr.param_dict)}: rows {got[:1]} x{len(got)} with params {dict(res.params.param_dict)}, expected {want[:1]} x{r_i}"
                    elif res.histogram(key="m") != {cirq.big_endian_bits_to_int(want[0]): r_i} or list(res.data["m"]) != [cirq.big_endian_bits_to_int(want[0])] * r_i:
                        problem = problem or f"program #{i}: histogram / data frame disagree with the records"
            if problem:
                fails.append(dict(args=args, failed="batch-results", clause=problem))
        if len(fails) >= 3:
            break
    # one fixed input with the parameters given as a LIST OF RESOLVERS per program (as many resolvers as programs in the batch)
    c1 = cirq.Circuit(cirq.X(qs[0]) ** v, cirq.measure(qs[0], key="m"))
    c2 = cirq.Circuit(cirq.X(qs[0]), cirq.X(qs[0]) ** v, cirq.measure(qs[0], key="m"))
    ps = [cirq.ParamResolver({"v": 0}), cirq.ParamResolver({"v": 1})]
    cases += 1
    shapes = {}
    for jpb in (1, 2):
        sampler = cg.ProcessorSampler(processor=SimulatedLocalProcessor(processor_id="p", sampler=cirq.Simulator(seed=1)), jobs_per_batch=jpb)
        try:
            out = sampler.run_batch([c1, c2], [ps, ps], repetitions=2)
            shapes[jpb] = [[(int(r.params.value_of(v)), int(r.measurements["m"][0][0])) for r in rs] for rs in out]
        except Exception as ex:
            shapes[jpb] = repr(ex)
    if shapes[1] != [[(0, 0), (1, 1)], [(0, 1), (1, 0)]] or shapes[2] != shapes[1]:
        fails.append(dict(args=dict(programs="[c1, c2]", params_list="[[v=0, v=1], [v=0, v=1]] as lists of resolvers", results_by_jobs_per_batch=repr(shapes)), failed="batch-resolver-lists",
                          clause=f"run_batch with a list of resolvers per program: jobs_per_batch=1 gives {shapes[1]}, jobs_per_batch=2 gives {shapes[2]} (every program must get every resolver)"))
    return dict(function="cirq-google/cirq_google/engine/processor_sampler.py:ProcessorSampler.run_batch", case="batches",
                bound="seeded batches of 2-4 deterministic programs (own sweep and repetition count each) x list / mapping with unsorted keys x jobs_per_batch in {1, 2, 3, 5}, local simulated processor",
                cases=cases, distinct=cases, failures=len(fails), exhaustive=False, _fails=fails[:3])
standin_batches.prop = "C18"

def standin_vendor_counts(tier, seed):
    """results handed back as counts of whole-register outcomes (IonQ QPUResult): the cirq.Result made from them has one row per shot in every
    key, so the joint rows over all keys, rebuilt into register values, are the reported counts, and each key's histogram is its marginal"""
    import collections
    import random

    import cirq
    import numpy as np

    F = "cirq-ionq/cirq_ionq/results.py:QPUResult.to_cirq_result"
    try:
        import cirq_ionq
    except ImportError:
        return dict(function=F, case="vendor-counts", bound="cirq_ionq not importable", cases=0, distinct=0, failures=0, exhaustive=False, _fails=[])
    rng = random.Random(seed + 501)
    cases, fails = 0, []
    fixed = [({0b000: 4, 0b011: 1, 0b100: 2, 0b111: 4}, 3, {"hi": [0], "lo": [2, 1]}), ({0b01: 3, 0b10: 5}, 2, {"a": [0], "b": [1]}), ({0: 1, 1: 2, 2: 1, 3: 2}, 2, {"b": [1], "a": [0, 1]})]
    for trial in range(60 if tier == "quick" else 600):
        if trial < len(fixed):
            counts, n, md = fixed[trial]
        else:
            n = rng.randrange(2, 5)
            counts = {v_: rng.randrange(1, 5) for v_ in rng.sample(range(2 ** n), rng.randrange(2, min(7, 2 ** n) + 1))}
            md = {}
            for name in rng.sample(["k", "a", "zz", "b"], rng.randrange(1, 4)):
                md[name] = rng.sample(range(n), rng.randrange(1, n + 1))
        cases += 1
        args = dict(counts=counts, num_qubits=n, measurement_dict=md)
        try:
            qpu = cirq_ionq.QPUResult(dict(counts), num_qubits=n, measurement_dict={k: list(t) for k, t in md.items()})
            res = qpu.to_cirq_result()
        except Exception as ex:
            fails.append(dict(args=args, failed="to_cirq_result-raised", clause=f"{ex!r}"))
            continue
        want_joint = collections.Counter()
        for v_, c_ in counts.items():
            want_joint[tuple(tuple((v_ >> (n - 1 - t)) & 1 for t in md[k]) for k in md)] += c_
        got_joint = collections.Counter(tuple(tuple(int(b) for b in res.measurements[k][row]) for k in md) for row in range(res.repetitions))
        problem = None
        if res.repetitions != sum(counts.values()):
            problem = f"{res.repetitions} repetitions for {sum(counts.values())} shots"
        elif got_joint != want_joint:
            problem = f"joint rows over keys {list(md)}: {dict(got_joint)}, the reported counts give {dict(want_joint)}"
        else:
            for k in md:
                if res.histogram(key=k) != qpu.counts(k):
                    problem = f"histogram of key {k!r} {dict(res.histogram(key=k))} != QPUResult.counts {dict(qpu.counts(k))}"
            mh = res.multi_measurement_histogram(keys=list(md))
            want_mh = collections.Counter({tuple(cirq.big_endian_bits_to_int(bits) for bits in kk): c_ for kk, c_ in want_joint.items()})
            if collections.Counter(mh) != want_mh:
                problem = problem or f"multi_measurement_histogram {dict(mh)} != {dict(want_mh)}"
        if problem:
            fails.append(dict(args=args, failed="vendor-counts", clause=problem))
            if len(fails) >= 3:
                break
    # probabilities of whole-register outcomes sampled into rows (IonQ SimulatorResult), registers up to 70 qubits: every row is one of the outcomes,
    # read on the key's targets; integer dtype and integer histogram keys whatever the width
    for n_w, outcomes, md in ((5, [0b10011, 0b00100], {"m": [0, 3, 4]}), (63, [(1 << 62) + 1, 2], {"m": [0, 61, 62]}), (64, [1 << 63, (1 << 63) + 1, 1], {"m": [0, 1, 63], "k": [63]}),
                              (70, [(1 << 69) + 2, 1 << 68], {"m": [0, 1, 68, 69]})):
        cases += 1
        try:
            sr = cirq_ionq.SimulatorResult({v_: 1.0 / len(outcomes) for v_ in outcomes}, n_w, {k: list(t) for k, t in md.items()}, repetitions=12)
            res = sr.to_cirq_result(seed=rng.randrange(100))
        except Exception as ex:
            fails.append(dict(args=dict(num_qubits=n_w, outcomes=outcomes, measurement_dict=md), failed="vendor-wide-probabilities", clause=f"SimulatorResult.to_cirq_result raised {ex!r}"))
            continue
        allowed = {tuple(tuple((v_ >> (n_w - 1 - t)) & 1 for t in md[k]) for k in md) for v_ in outcomes}
        rows = {tuple(tuple(int(b) for b in res.measurements[k][r_]) for k in md) for r_ in range(res.repetitions)}
        hist_keys_int = all(isinstance(h_, (int, np.integer)) for k in md for h_ in res.histogram(key=k))
        if not rows <= allowed or not hist_keys_int or any(res.measurements[k].dtype.kind not in "iu" for k in md):
            fails.append(dict(args=dict(num_qubits=n_w, outcomes=outcomes, measurement_dict=md, rows=sorted(rows)[:4]), failed="vendor-wide-probabilities",
                              clause=f"rows sampled from a {n_w}-qubit simulator result are not outcomes of the register read on the targets (or are not integers)"))
    # the conversion of the service's little-endian outcome keys, for registers wider than a machine word
    try:
        from cirq_ionq import job as _job

        for n in (1, 5, 31, 32, 33, 63, 64, 65, 66, 70, 100):
            for _v in range(6):
                cases += 1
                value = rng.getrandbits(n) | (1 if _v == 0 else 0) | ((1 << (n - 1)) if _v == 1 else 0)
                got = _job._little_endian_to_big(value, n)
                want = sum(((value >> j_) & 1) << (n - 1 - j_) for j_ in range(n))
                if got != want or not isinstance(got, int):
                    fails.append(dict(args=dict(value=value, bit_count=n), failed="vendor-endianness", clause=f"_little_endian_to_big({value}, {n}) = {got!r}, the bit reversal is {want}"))
                    break
    except ImportError:
        pass
    return dict(function=F, case="vendor-counts", bound="3 fixed + seeded counts over 2-4 qubits (2-7 distinct outcomes) x 1-3 keys on arbitrary target subsets; endianness conversion of outcome keys on registers of 1..100 qubits",
                cases=cases, distinct=cases, failures=len(fails), exhaustive=False, _fails=fails[:3])
standin_vendor_counts.prop = "C18"

def standin_run_record_shapes(tier, seed):
    """the records a simulator's run hands back for deterministic circuits with keys measured several times (all of them terminal, or followed by
    one more operation): shape (repetitions, instances, qubits) for 0..5 repetitions, every entry the prepared digit, the same through run_sweep and
    as the concatenation of single-repetition runs"""
    import itertools

    import cirq

    F_ = "cirq-core/cirq/sim/simulator.py:SimulatesSamples.run_sweep_iter / StepResult.sample_measurement_ops"
    q = cirq.LineQubit.range(3)
    sims = [("Simulator", lambda: cirq.Simulator(seed=1)), ("DensityMatrixSimulator", lambda: cirq.DensityMatrixSimulator(seed=1)), ("CliffordSimulator", lambda: cirq.CliffordSimulator(seed=1))]
    layouts = {
        "one key on two different qubits": ([cirq.X(q[1])], [cirq.measure(q[0], key="a"), cirq.measure(q[1], key="a")], {"a": [[0], [1]]}),
        "one key three times, two qubits each": ([cirq.X(q[1])], [cirq.measure(q[0], q[1], key="a"), cirq.measure(q[1], q[2], key="a"), cirq.measure(q[1], q[0], key="a")], {"a": [[0, 1], [1, 0], [1, 0]]}),
        "two keys, one of them twice": ([cirq.X(q[0]), cirq.X(q[2])], [cirq.measure(q[0], key="a"), cirq.measure(*q, key="b"), cirq.measure(q[1], key="a")], {"a": [[1], [0]], "b": [[1, 0, 1]]}),
    }
    cases, fails = 0, []
    for (sname, mk), (lname, (prep, meas, want)), tail, reps in itertools.product(sims, layouts.items(), (False, True), (0, 1, 2, 4, 5)):
        c = cirq.Circuit(prep, [cirq.Moment(m) for m in meas], [cirq.I(q[0])] if tail else [])
        cases += 1
        args = dict(simulator=sname, layout=lname, measurements_are_terminal=not tail, repetitions=reps)
        try:
            r = mk().run(c, repetitions=reps)
            rs = mk().run_sweep(c, params=[{}], repetitions=reps)[0]
        except Exception as ex:
            fails.append(dict(args=args, failed="run-records-raised", clause=f"{ex!r}"))
            continue
        problem = None
        for k, inst in want.items():
            for label, res in (("run", r), ("run_sweep", rs)):
                got = res.records.get(k)
                if got is None or got.shape != (reps, len(inst), len(inst[0])):
                    problem = problem or f"{label}: records[{k!r}] has shape {None if got is None else got.shape}, expected {(reps, len(inst), len(inst[0]))}"
                elif got.astype(int).tolist() != [inst] * reps:
                    problem = problem or f"{label}: records[{k!r}] = {got.astype(int).tolist()}, every repetition should read {inst}"
        if problem is None and reps:
            try:
                joined = r + mk().run(c, repetitions=0)
                if any(joined.records[k].shape != r.records[k].shape for k in want):
                    problem = "adding a zero-repetition result of the same circuit changes the shapes"
            except Exception as ex:
                problem = f"a zero-repetition result of the same circuit cannot be added to this one: {ex!r}"
        if problem:
            fails.append(dict(args=args, failed="run-records", clause=problem))
    seen, uniq = set(), []
    for f_ in fails:
        key = (f_["args"]["simulator"], f_["args"].get("measurements_are_terminal"), f_["args"].get("repetitions") == 0)
        if key not in seen:
            seen.add(key)
            uniq.append(f_)
    return dict(function=F_, case="run-record-shapes", bound="3 simulators x 3 layouts of repeated keys x terminal / non-terminal x 0, 1, 2, 4, 5 repetitions (deterministic circuits)",
                cases=cases, distinct=cases, failures=len(uniq), exhaustive=True, _fails=uniq[:4])
standin_run_record_shapes.prop = "C18"

STANDINS = [standin_views, standin_numpy_digits, standin_state_histogram, standin_large_results, standin_packed_storage, standin_sample_frames, standin_batches, standin_vendor_counts, standin_run_record_shapes]
