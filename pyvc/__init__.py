"""pyvc: verification-condition generation from real Python source, discharged by z3 / cvc5."""
