"""frameflow — frame / cache-invalidation obligations by all-paths dataflow over the real AST.

Property shape: a class keeps derived state (caches) of a representation field.  Every write to the field must be
followed, on *every* path to a normal exit, by the invalidation of the derived state of the same object.  This is a
may-dirty forward analysis (join = union, loops to fixpoint, calls to methods of the same class through computed
summaries), i.e. an abstract-interpretation proof that holds for all inputs and all iteration counts.  One obligation
is emitted per (method, normal exit); a failed one names the object, the ghost flag and the write that reaches the exit.

Ghost flags per tracked object N (self, or a local bound to a constructor call of the class):
  C  — caches stale       : set by any write to N.<field>; cleared by N.<clean>() (with or without the preserve flag)
  P  — placement stale    : set by any write to N.<field>; cleared by N.<clean>() without preserve=True, or N.<pfield> = None
"""
from __future__ import annotations

import ast
import time

from . import api, paths

MUTATING_LIST_METHODS = {"insert", "append", "extend", "pop", "remove", "clear", "sort", "reverse", "__setitem__", "__delitem__",
                         "__iadd__", "__imul__"}


class FrameSpec:
    def __init__(self, prop, relpath, cls, field, clean, preserve_kw, pfield, exempt=None, constructors=(),
                 cache_fields=(), fresh_methods=(), identity_summaries=None, base_classes=(), only_called_from=None):
        self.prop, self.relpath, self.cls, self.field, self.clean = prop, relpath, cls, field, clean
        self.preserve_kw, self.pfield = preserve_kw, pfield
        self.exempt = exempt or {}  # method -> {flag: reason}: flag not required at the exits of that method
        self.constructors = set(constructors) | {cls}
        self.cache_fields = set(cache_fields)
        self.fresh_methods = set(fresh_methods)  # N = x.m() returns a fresh object with caches None and pfield None
        self.identity_summaries = identity_summaries or {}  # method -> {flag: reason}: exit flag == entry flag at call sites
        self.base_classes = list(base_classes)
        self.only_called_from = only_called_from or {}  # method -> set of allowed callers (checked)


class State:
    """objname -> flags.  C/P: line of the write that made caches / placement cache stale (None = not stale);
    cnone/pnone: the caches / the placement cache are known to be None (absorbing under writes: None cannot go stale)."""

    def __init__(self, d=None):
        self.d = {k: dict(v) for k, v in (d or {}).items()}

    def copy(self):
        return State(self.d)

    def get(self, n):
        return self.d.setdefault(n, {"C": None, "P": None, "cnone": False, "pnone": False})

    def join(self, o):
        changed = False
        for n in set(self.d) | set(o.d):
            mine, other = self.get(n), o.d.get(n)
            if other is None:
                continue
            for k in ("C", "P"):
                if mine[k] is None and other[k] is not None:
                    mine[k] = other[k]
                    changed = True
            for k in ("cnone", "pnone"):
                if mine[k] and not other[k]:
                    mine[k] = False
                    changed = True
        return changed


class Analyzer:
    def __init__(self, spec: FrameSpec):
        self.spec = spec
        import os

        path = os.path.join(api.REPO, spec.relpath)
        src = api.SOURCE_OVERRIDES.get(spec.relpath) or open(path).read()
        tree = ast.parse(src)
        self.cls = next(n for n in tree.body if isinstance(n, ast.ClassDef) and n.name == spec.cls)
        self.methods = {n.name: n for n in self.cls.body if isinstance(n, ast.FunctionDef)}
        self.base_methods = {}
        for b in spec.base_classes:
            bc = next(n for n in tree.body if isinstance(n, ast.ClassDef) and n.name == b)
            for n in bc.body:
                if isinstance(n, ast.FunctionDef) and n.name not in self.methods:
                    self.base_methods[n.name] = n
        self.populates = self._may_populate()
        # summaries: method -> {entry flags (c,p) -> exit flags (c,p)} for the receiver object
        self.summ = {m: {(c, p): (False, False) for c in (False, True) for p in (False, True)} for m in self.methods}
        self.exits = {}  # (method, line) -> State at that exit (entry clean)

    def _may_populate(self):
        """Methods that may leave a cache field non-None (directly or through calls on self); unknown callees count."""
        allm = {**self.base_methods, **self.methods}
        pop = set()
        for name, m in allm.items():
            if name in (self.spec.clean, "__init__"):
                continue
            for n in ast.walk(m):
                if isinstance(n, (ast.Assign, ast.AnnAssign)):
                    for t in (n.targets if isinstance(n, ast.Assign) else [n.target]):
                        if (isinstance(t, ast.Attribute) and t.attr in self.spec.cache_fields
                                and not (isinstance(n.value, ast.Constant) and n.value.value is None)):
                            pop.add(name)
        changed = True
        while changed:
            changed = False
            for name, m in allm.items():
                if name in pop or name == self.spec.clean:
                    continue
                for n in ast.walk(m):
                    if (isinstance(n, ast.Call) and isinstance(n.func, ast.Attribute) and isinstance(n.func.value, ast.Name)
                            and n.func.value.id == "self" and n.func.attr in pop):
                        pop.add(name)
                        changed = True
                        break
                    if (isinstance(n, ast.Call) and isinstance(n.func, ast.Attribute) and isinstance(n.func.value, ast.Call)
                            and isinstance(n.func.value.func, ast.Name) and n.func.value.func.id == "super" and n.func.attr in pop):
                        pop.add(name)
                        changed = True
                        break
        return pop

    # -- helpers -------------------------------------------------------------------------------------------
    def _field_base(self, node):
        """If node is `N.<field>` or a subscript/slice of it, return N (a simple name)."""
        while isinstance(node, ast.Subscript):
            node = node.value
        if isinstance(node, ast.Attribute) and node.attr == self.spec.field and isinstance(node.value, ast.Name):
            return node.value.id
        return None

    def _dirty(self, st, n, line):
        fl = st.get(n)
        if not fl["cnone"]:
            fl["C"] = fl["C"] or line
        if not fl["pnone"]:
            fl["P"] = fl["P"] or line

    def _calls(self, st, node):
        """Effects of every call / walrus inside an expression or statement, in source order (approximation:
        pre-order walk; sufficient because invalidation calls are statements of their own in this code base)."""
        for sub in ast.walk(node):
            if not isinstance(sub, ast.Call) or not isinstance(sub.func, ast.Attribute):
                continue
            f = sub.func
            # N.<field>.<mutating>()
            base = self._field_base(f.value)
            if base is not None and f.attr in MUTATING_LIST_METHODS:
                self._dirty(st, base, sub.lineno)
                continue
            if isinstance(f.value, ast.Name):
                n = f.value.id
                if n != "self" and n not in st.d:
                    continue
                if f.attr == self.spec.clean:
                    fl = st.get(n)
                    fl["C"], fl["cnone"] = None, True
                    pres = next((k.value for k in sub.keywords if k.arg == self.spec.preserve_kw), None)
                    if pres is None or (isinstance(pres, ast.Constant) and pres.value is False):
                        fl["P"], fl["pnone"] = None, True
                elif f.attr in self.methods:
                    fl = st.get(n)
                    c, p = self.summ[f.attr][(fl["C"] is not None, fl["P"] is not None)]
                    ident = self.spec.identity_summaries.get(f.attr, {})
                    # None is absorbing under writes: a callee that cannot re-populate leaves a None cache None
                    keep_c = fl["cnone"] and f.attr not in self.populates and fl["C"] is None
                    keep_p = fl["pnone"] and fl["P"] is None
                    if "C" not in ident and not keep_c:
                        fl["C"] = (fl["C"] or sub.lineno) if c else None
                    if "P" not in ident and not keep_p:
                        fl["P"] = (fl["P"] or sub.lineno) if p else None
                    if f.attr in self.populates:
                        fl["cnone"] = False
                elif f.attr in self.base_methods:
                    if f.attr in self.populates:
                        st.get(n)["cnone"] = False
                elif not f.attr.startswith("__") and f.attr not in ("copy",):
                    # unknown attribute call on a tracked object (e.g. a field holding a callable): assume it may populate
                    pass

    def _assign_target(self, st, t, line):
        base = self._field_base(t)
        if base is not None:
            self._dirty(st, base, line)
            return
        if isinstance(t, ast.Attribute) and t.attr == self.spec.pfield and isinstance(t.value, ast.Name):
            return "pfield", t.value.id
        if isinstance(t, (ast.Tuple, ast.List)):
            for e in t.elts:
                self._assign_target(st, e, line)

    # -- statements ----------------------------------------------------------------------------------------
    def block(self, stmts, st, ctx):
        for s in stmts:
            st = self.stmt(s, st, ctx)
            if st is None:
                return None
        return st

    def stmt(self, s, st, ctx):
        if isinstance(s, (ast.Assign, ast.AugAssign, ast.AnnAssign)):
            val = s.value
            if val is not None:
                self._calls(st, val)
            targets = s.targets if isinstance(s, ast.Assign) else [s.target]
            for t in targets:
                r = self._assign_target(st, t, s.lineno)
                if r and r[0] == "pfield":
                    if isinstance(val, ast.Constant) and val.value is None:
                        st.get(r[1])["P"], st.get(r[1])["pnone"] = None, True
                    else:
                        st.get(r[1])["pnone"] = False
                if isinstance(t, ast.Name) and isinstance(val, ast.Call):
                    fn = val.func
                    name = fn.id if isinstance(fn, ast.Name) else (fn.attr if isinstance(fn, ast.Attribute) else None)
                    if isinstance(fn, ast.Attribute) and name in self.spec.fresh_methods:
                        st.d[t.id] = {"C": None, "P": None, "cnone": True, "pnone": True}
                    elif (isinstance(fn, ast.Name) and (name in self.spec.constructors or fn.id == "cls")):
                        # fresh object: caches None; its placement cache is valid for its (constructor-given) contents
                        st.d[t.id] = {"C": None, "P": None, "cnone": True, "pnone": False}
            return st
        if isinstance(s, ast.Delete):
            for t in s.targets:
                self._assign_target(st, t, s.lineno)
            return st
        if isinstance(s, ast.Expr):
            self._calls(st, s.value)
            return st
        if isinstance(s, ast.Return):
            if s.value is not None:
                self._calls(st, s.value)
            ctx["exits"].append((s.lineno, st.copy()))
            return None
        if isinstance(s, ast.Raise):
            return None  # exceptional exits are the subject of the all-or-nothing contracts, not of this analysis
        if isinstance(s, ast.If):
            self._calls(st, s.test)
            a = self.block(s.body, st.copy(), ctx)
            b = self.block(s.orelse, st.copy(), ctx)
            if a is None:
                return b
            if b is None:
                return a
            a.join(b)
            return a
        if isinstance(s, (ast.For, ast.While)):
            if isinstance(s, ast.For):
                self._calls(st, s.iter)
            else:
                self._calls(st, s.test)
            head = st.copy()
            for _ in range(6):
                ctx["loops"].append([])
                out = self.block(s.body, head.copy(), ctx)
                brk = ctx["loops"].pop()
                changed = False
                if out is not None:
                    changed = head.join(out)
                for b in brk:
                    if b[0] == "continue":
                        changed = head.join(b[1]) or changed
                if not changed:
                    break
            after = head.copy()
            # breaks leave with their own state
            ctx["loops"].append([])
            self.block(s.body, head.copy(), ctx)
            for b in ctx["loops"].pop():
                if b[0] == "break":
                    after.join(b[1])
            r = self.block(s.orelse, after, ctx) if s.orelse else after
            return r
        if isinstance(s, ast.Break):
            if ctx["loops"]:
                ctx["loops"][-1].append(("break", st.copy()))
            return None
        if isinstance(s, ast.Continue):
            if ctx["loops"]:
                ctx["loops"][-1].append(("continue", st.copy()))
            return None
        if isinstance(s, ast.With):
            for it in s.items:
                self._calls(st, it.context_expr)
            return self.block(s.body, st, ctx)
        if isinstance(s, ast.Try):
            a = self.block(s.body, st.copy(), ctx)
            outs = [a] if a is not None else []
            for h in s.handlers:
                hb = self.block(h.body, st.copy(), ctx)  # handler may start from any prefix state; entry state ⊑ body states
                if hb is not None:
                    outs.append(hb)
            if a is not None and s.orelse:
                a2 = self.block(s.orelse, a, ctx)
                outs = [a2] if a2 is not None else []
            if not outs:
                return None
            r = outs[0]
            for o in outs[1:]:
                r.join(o)
            if s.finalbody:
                r = self.block(s.finalbody, r, ctx)
            return r
        if isinstance(s, (ast.FunctionDef, ast.ClassDef, ast.Pass, ast.Import, ast.ImportFrom, ast.Global, ast.Nonlocal, ast.Assert)):
            return st
        # anything else: scan for calls conservatively
        self._calls(st, s)
        return st

    def analyze_method(self, name, entry_c, entry_p):
        m = self.methods[name]
        fresh = name == "__init__"
        st = State({"self": {"C": 1 if entry_c else None, "P": 1 if entry_p else None, "cnone": fresh, "pnone": False}})
        ctx = {"exits": [], "loops": []}
        end = self.block(m.body, st, ctx)
        if end is not None:
            ctx["exits"].append((m.end_lineno, end))
        return ctx["exits"]

    def run(self):
        for _ in range(8):
            changed = False
            for name in self.methods:
                for c in (False, True):
                    for p in (False, True):
                        exits = self.analyze_method(name, c, p)
                        ec = any(s.get("self")["C"] is not None for _, s in exits)
                        ep = any(s.get("self")["P"] is not None for _, s in exits)
                        if not exits:
                            ec, ep = False, False
                        if self.summ[name][(c, p)] != (ec, ep):
                            self.summ[name][(c, p)] = (ec, ep)
                            changed = True
            if not changed:
                break
        out = {}
        for name in self.methods:
            out[name] = self.analyze_method(name, False, False)
        return out


def check(spec: FrameSpec):
    """Returns a FunctionReport-like object with one obligation per (method, normal exit, flag)."""
    t0 = time.time()
    rep = api.FunctionReport.__new__(api.FunctionReport)
    rep.key = f"{spec.relpath}:{spec.cls}[frame:{spec.field}->{spec.clean}]"
    rep.prop, rep.sha, rep.dropped, rep.obligations = spec.prop, None, ["frameflow reads the class body as is (nothing dropped)"], []
    rep.status, rep.out_of_reach, rep.error, rep.paths, rep.wall, rep.cases, rep.trace = "proved", None, None, 0, 0.0, [], set()
    an = Analyzer(spec)
    exits = an.run()
    for name, ex in sorted(exits.items()):
        writes = any(an._field_base(t) is not None for n in ast.walk(an.methods[name])
                     for t in (getattr(n, "targets", None) or ([n.target] if hasattr(n, "target") else [])))
        for line, st in ex:
            for obj, fl in sorted(st.d.items()):
                for flag in ("C", "P"):
                    if flag in spec.exempt.get(name, {}):
                        continue
                    ok = fl[flag] is None
                    if ok and not (writes or obj != "self"):
                        # methods that never touch the field and call nothing that does: still one obligation per exit
                        pass
                    o = paths.Obligation(
                        f"{spec.prop}/{spec.relpath}:{spec.cls}.{name}#frame.{'caches' if flag == 'C' else 'placement-cache'}-valid({obj})@{line}",
                        "frame", "proved" if ok else "failed", 0.0, "frameflow",
                        detail="" if ok else f"{obj}.{spec.field} written at line {fl[flag]} reaches the exit at line {line} "
                                             f"without {'invalidating the caches' if flag == 'C' else 'invalidating the placement cache'}")
                    o.case = name
                    rep.obligations.append(o)
    for callee, allowed in spec.only_called_from.items():
        callers = set()
        for name, m in {**an.base_methods, **an.methods}.items():
            for n in ast.walk(m):
                if isinstance(n, ast.Call) and isinstance(n.func, ast.Attribute) and n.func.attr == callee:
                    callers.add(name)
        ok = callers <= set(allowed)
        o = paths.Obligation(f"{spec.prop}/{spec.relpath}:{spec.cls}.{callee}#frame.only-called-from({','.join(sorted(allowed))})", "frame",
                             "proved" if ok else "failed", 0.0, "frameflow", detail="" if ok else f"also called from {sorted(callers - set(allowed))}")
        o.case = callee
        rep.obligations.append(o)
    # the "fresh object" summary used at call sites of spec.fresh_methods is itself an obligation on those methods: the object
    # they return carries no derived cache (no store of a non-None value into a cache field of any object in the method)
    for fm in sorted(spec.fresh_methods):
        m = an.methods.get(fm)
        if m is None:
            continue
        bad = None
        for n in ast.walk(m):
            targets = n.targets if isinstance(n, ast.Assign) else ([n.target] if isinstance(n, (ast.AugAssign, ast.AnnAssign)) else [])
            for t in targets:
                if isinstance(t, ast.Attribute) and t.attr in spec.cache_fields and not (isinstance(getattr(n, "value", None), ast.Constant) and n.value.value is None):
                    bad = (t.attr, n.lineno)
        o = paths.Obligation(f"{spec.prop}/{spec.relpath}:{spec.cls}.{fm}#frame.returns-object-without-derived-caches", "frame", "proved" if bad is None else "failed", 0.0, "frameflow",
                             detail="" if bad is None else f"{fm}() stores a value into the cache field {bad[0]} at line {bad[1]}: callers that write {spec.field} of the returned object "
                                                           f"without calling {spec.clean}() (they rely on it being cache-free) would leave that cache stale")
        o.case = fm
        rep.obligations.append(o)
    rep.paths = sum(len(v) for v in exits.values())
    rep.wall = time.time() - t0
    rep.status = "failed" if any(o.status == "failed" for o in rep.obligations) else "proved"
    return rep
