"""Contracts, spec functions, extraction of real functions and the per-function verifier."""
from __future__ import annotations

import ast
import hashlib
import importlib
import inspect
import os
import sys
import time
import traceback

import z3

from . import paths, sym
from .interp import Env, Interp, SpecError, _Return, number_loops, SRec, _parse_expr
from .sym import OutOfReach, SBool, SInt, SList, SMap, SObj, SReal, SSeq, SSet, Sym, wrap

REPO = os.environ.get("VERIF_REPO", "/repo")
SOURCE_OVERRIDES: dict = {}  # relpath -> patched source text (canaries only; applied in memory)

# ------------------------------------------------------------------------------------------------
# extraction: the verified text is the function as it is in /repo's working tree, re-read every run


_EX_CACHE: dict = {}


def Extracted(relpath, qualname):
    """Cached extraction (keyed on the override text in effect, so canaries see their own source)."""
    key = (relpath, qualname, hash(SOURCE_OVERRIDES.get(relpath)))
    e = _EX_CACHE.get(key)
    if e is None:
        e = _EX_CACHE[key] = _Extracted(relpath, qualname)
    return e


class _Extracted:
    def __init__(self, relpath, qualname):
        self.relpath, self.qualname = relpath, qualname
        if relpath.startswith("verif:"):
            path = os.path.join(os.path.dirname(os.path.dirname(os.path.abspath(__file__))), relpath[6:])
        else:
            path = os.path.join(REPO, relpath)
        src = SOURCE_OVERRIDES.get(relpath) or open(path, encoding="utf-8").read()
        tree = ast.parse(src)
        node = _find(tree, qualname.split("."))
        if node is None:
            raise KeyError(f"{relpath}:{qualname} not found")
        self.node = node
        self.dropped = normalise(node)
        self.sha = hashlib.sha256(ast.dump(node, include_attributes=False).encode()).hexdigest()
        self.nloops = number_loops(node)
        self.lineno = node.lineno
        self.module_name = module_name_of(relpath)

    def module(self):
        return importlib.import_module(self.module_name)

    def key(self):
        return f"{self.relpath}:{self.qualname}"


def module_name_of(relpath):
    if relpath.startswith("verif:"):
        return relpath[6:-3].replace("/", ".")
    parts = relpath.split("/")
    # cirq-core/cirq/value/digits.py -> cirq.value.digits
    return ".".join(parts[1:])[: -len(".py")]


def _find(tree, parts):
    body = tree.body
    node = None
    for i, p in enumerate(parts):
        cands = [n for n in body if isinstance(n, (ast.FunctionDef, ast.AsyncFunctionDef, ast.ClassDef)) and n.name == p]
        # skip @overload stubs: take the last definition that is not an overload
        cands = [n for n in cands if not _is_overload(n)] or cands
        if not cands:
            return None
        node = cands[-1]
        body = node.body
    return node


def _is_overload(n):
    return any((isinstance(d, ast.Name) and d.id == "overload") or (isinstance(d, ast.Attribute) and d.attr == "overload")
               for d in getattr(n, "decorator_list", []))


ALLOWED_DECORATORS = {"staticmethod", "classmethod", "property", "cached_method", "cached_property", "cache",
                      "abstractmethod", "value_equality", "_compat.cached_method", "functools.cached_property", "functools.cache",
                      "abc.abstractmethod", "transformer_api.transformer", "setter"}


def normalise(fnode):
    """Mechanical normalisation; returns the list of what was dropped (reported in evidence)."""
    dropped = []
    if fnode.body and isinstance(fnode.body[0], ast.Expr) and isinstance(fnode.body[0].value, ast.Constant) and isinstance(
            fnode.body[0].value.value, str):
        fnode.body = fnode.body[1:] or [ast.Pass()]
        dropped.append("docstring")
    for n in ast.walk(fnode):
        if isinstance(n, ast.arg) and n.annotation is not None:
            n.annotation = None
            if "annotations" not in dropped:
                dropped.append("annotations")
        if isinstance(n, (ast.FunctionDef, ast.AsyncFunctionDef)) and n.returns is not None:
            n.returns = None
    for d in list(getattr(fnode, "decorator_list", [])):
        name = ast.unparse(d).split("(")[0]
        if name.split(".")[-1] in ALLOWED_DECORATORS or name in ALLOWED_DECORATORS:
            dropped.append(f"decorator @{name} (modelled as transparent)")
        else:
            dropped.append(f"decorator @{name} (NOT in allow-list)")
    fnode.decorator_list = []
    return dropped


# ------------------------------------------------------------------------------------------------
# value construction from kind specs


def parse_kind(s):
    s = s.strip()
    if s in ("int", "nat", "bit", "pos"):
        return sym.INT
    if s == "bool":
        return sym.BOOL
    if s == "real":
        return sym.REAL
    if s.startswith("obj:"):
        return sym.obj_kind(s[4:])
    raise SpecError(f"unknown element kind {s}")


def make_value(spec, name):
    p = paths.current()
    if callable(spec):
        return spec(name)
    if isinstance(spec, tuple) and spec and spec[0] == "const":
        return spec[1]
    if isinstance(spec, tuple) and spec and spec[0] == "tuple":
        return tuple(make_value(s, f"{name}.{i}") for i, s in enumerate(spec[1]))
    if isinstance(spec, tuple) and spec and spec[0] == "list":
        return [make_value(s, f"{name}.{i}") for i, s in enumerate(spec[1])]
    if not isinstance(spec, str):
        raise SpecError(f"bad kind spec {spec!r}")
    s = spec.strip()
    if s == "none":
        return None
    if s == "int":
        return sym.fresh_int(name)
    if s == "nat":
        v = sym.fresh_int(name)
        p.assume(v.e >= 0)
        return v
    if s == "pos":
        v = sym.fresh_int(name)
        p.assume(v.e >= 1)
        return v
    if s == "bit":
        v = sym.fresh_int(name)
        p.assume(z3.And(v.e >= 0, v.e <= 1))
        return v
    if s == "bool":
        return sym.fresh_bool(name)
    if s == "real":
        return sym.fresh_real(name)
    if s.startswith("obj:"):
        return sym.fresh_obj(s[4:], name)
    for prefix, pytype in (("seq[", tuple), ("list[", list)):
        if s.startswith(prefix) and s.endswith("]"):
            inner = s[len(prefix):-1]
            k = parse_kind(inner)
            v = SSeq.fresh(k, name, pytype)
            if inner in ("nat", "bit", "pos"):
                j = z3.Int(sym.fresh_name("j"))
                lo = 1 if inner == "pos" else 0
                body = z3.Select(v.a, j) >= lo
                if inner == "bit":
                    body = z3.And(body, z3.Select(v.a, j) <= 1)
                p.assume(z3.ForAll([j], body))
                p.quantified = True
            return SList(v) if pytype is list else v
    if s.startswith("map[") and s.endswith("]"):
        k, v = s[4:-1].split("->")
        return SMap.fresh(parse_kind(k), parse_kind(v), name)
    if s.startswith("set[") and s.endswith("]"):
        return SSet.fresh(parse_kind(s[4:-1]), name)
    raise SpecError(f"unknown kind spec {spec!r}")


# ------------------------------------------------------------------------------------------------
# spec functions


class SpecFunction:
    """Pure (possibly recursive) specification function.

    Native call: runs the Python body.  Symbolic call: uninterpreted function application plus the
    defining axiom obtained by interpreting the *same* body over bound variables (pattern: the
    application itself)."""

    _pyvc_native_ok = True

    def __init__(self, fn, args, ret):
        self.fn, self.args, self.ret = fn, args, ret
        self.__name__ = fn.__name__
        self._uf = None
        self._axiom = None

    def _sorts(self):
        out = []
        for a in self.args:
            if a.startswith("seq["):
                out.append(z3.ArraySort(z3.IntSort(), parse_kind(a[4:-1]).zsort))
            else:
                out.append(parse_kind(a).zsort)
        return out

    def uf(self):
        if self._uf is None:
            self._uf = z3.Function("spec!" + self.__name__, *self._sorts(), parse_kind(self.ret).zsort)
        return self._uf

    def _term_of(self, a, v):
        if a.startswith("seq["):
            s = sym.seq_of(v)
            if s is None:
                s = SSeq.from_values(v, parse_kind(a[4:-1]))
            return s.a
        return sym._elem_term(v, parse_kind(a))

    def __call__(self, *vals):
        if not paths.active() or not sym.contains_sym(vals):
            return self.fn(*vals)
        p = paths.current()
        self._install(p)
        t = self.uf()(*[self._term_of(a, v) for a, v in zip(self.args, vals)])
        return parse_kind(self.ret).wrapf(t)

    def _install(self, p):
        key = "spec:" + self.__name__
        if key in p.axiom_keys:
            return
        p.axiom_keys.add(key)  # before building: recursive calls inside the body see it installed
        if self._axiom is None:
            self._axiom = self._build_axiom()
        bound, body = self._axiom
        p.register_spec(self.uf(), bound, body)

    def _build_axiom(self):
        src = inspect.getsource(self.fn)
        fnode = ast.parse(_dedent(src)).body[0]
        bound, vals = [], []
        for a, arg in zip(self.args, fnode.args.args):
            if a.startswith("seq["):
                k = parse_kind(a[4:-1])
                arr = z3.Const(sym.fresh_name("b." + arg.arg), z3.ArraySort(z3.IntSort(), k.zsort))
                bound.append(arr)
                vals.append(SpecSeq(arr, k))
            else:
                k = parse_kind(a)
                c = z3.Const(sym.fresh_name("b." + arg.arg), k.zsort)
                bound.append(c)
                vals.append(k.wrapf(c))
        interp = Interp()
        env = Env(dict(zip([a.arg for a in fnode.args.args], vals)), None, self.fn.__globals__)
        interp.pure += 1
        body = None
        stmts = [s for s in fnode.body if not (isinstance(s, ast.Expr) and isinstance(s.value, ast.Constant))]
        if len(stmts) != 1 or not isinstance(stmts[0], ast.Return):
            raise SpecError(f"spec function {self.__name__} must be a single return expression")
        body = interp.eval(stmts[0].value, env)
        interp.pure -= 1
        rk = parse_kind(self.ret)
        return bound, sym._elem_term(body, rk)


class SpecSeq(SSeq):
    """Sequence inside a spec-function body: total access (no bounds obligation), unknown length."""

    def __init__(self, arr, kind):
        super().__init__(z3.Int(sym.fresh_name("len")), arr, kind, tuple)

    def __getitem__(self, i):
        if isinstance(i, slice):
            raise SpecError("slices are not supported inside spec functions")
        return self.at(i)


def _dedent(src):
    import textwrap

    src = textwrap.dedent(src)
    lines = src.splitlines()
    while lines and lines[0].lstrip().startswith("@"):
        lines = lines[1:]
    return "\n".join(lines)


def spec(args, ret):
    def deco(fn):
        return SpecFunction(fn, args, ret)

    return deco


def at(seq, i):
    """Total element access usable both natively and symbolically in contracts."""
    s = sym.seq_of(seq)
    if s is not None:
        return s.at(i)
    return seq[i]


at._pyvc_native_ok = True


def implies(a, b):
    if isinstance(a, Sym) or isinstance(b, Sym):
        def tt(v):
            if isinstance(v, bool):
                return z3.BoolVal(v)
            if isinstance(v, SBool):
                return v.e
            raise SpecError("implies() needs boolean operands")
        return wrap(z3.Implies(tt(a), tt(b)))
    return (not a) or b


implies._pyvc_native_ok = True


def forall(sortname, fn):
    """forall("Sort", lambda x: P(x)) in contract expressions over an abstract sort (symbolic evaluation only)."""
    if not paths.active():
        raise SpecError("forall over an abstract sort cannot be evaluated natively")
    k = parse_kind(sortname if sortname in ("int", "bool", "real") else "obj:" + sortname)
    x = k.fresh("q")
    p = paths.current()
    p.pure += 1
    try:
        body = fn(x)
    finally:
        p.pure -= 1
    if isinstance(body, bool):
        return body
    t = body.e if isinstance(body, SBool) else sym.to_z3(body)
    p.quantified = True
    return wrap(z3.ForAll([x.e], t))


def exists(sortname, fn):
    r = forall(sortname, lambda x: sym.s_not(_truthy(fn(x))))
    return sym.s_not(r)


def _truthy(v):
    if isinstance(v, (bool, SBool)):
        return v
    raise SpecError("exists body must be boolean")


forall._pyvc_native_ok = True
exists._pyvc_native_ok = True


# ------------------------------------------------------------------------------------------------
# contracts


class LoopSpec:
    def __init__(self, owner, index=None, inv=(), modifies=(), kinds=None, uses=()):
        self.owner, self.index, self.inv, self.modifies = owner, index, list(inv), list(modifies)
        self.kinds = kinds or {}
        self.uses = list(uses)  # lemma uses applied before the inv-step obligations (ghosts <name>_head = loop-head values)


class Case:
    """One typing of the parameters (Python functions are polymorphic; each case is verified separately)."""

    def __init__(self, name, params, requires=(), ensures=None, raises=None, result=None, loops=None, setup=None,
                 may_raise=None, ghosts=None, gen=None, native_call=None, lets=None):
        self.gen, self.native_call = gen, native_call
        self.lets = lets or {}
        self.name, self.params, self.requires = name, params, list(requires)
        self.ensures, self.raises, self.result, self.loops, self.setup = ensures, raises, result, loops, setup
        self.may_raise = may_raise
        self.ghosts = ghosts or {}


REGISTRY: dict = {}  # key "relpath:qualname" -> Contract


class Contract:
    def __init__(self, key, prop, params=None, requires=(), ensures=(), raises=None, may_raise=None, result=None,
                 loops=None, cases=None, modifies=(), inline=(), helpers=None, standin=None, notes="", hooks=None,
                 setup=None, env=None, pure_result=True, old=(), ghosts=None, assumes=(), uses=(), post_uses=(), models=None, native_post=None):
        self.models = models or {}
        self.native_post = native_post
        self.uses = list(uses)
        self.post_uses = list(post_uses)
        self.key, self.prop = key, prop
        self.relpath, self.qualname = key.rsplit(":", 1)
        self.requires, self.ensures = list(requires), list(ensures)
        self.raises, self.may_raise = dict(raises or {}), dict(may_raise or {})
        self.result = result
        self.loops = loops or {}
        self.cases = cases or [Case("default", params or {}, setup=setup, gen=standin)]
        self.modifies = list(modifies)
        self.inline = list(inline)
        self.standin = standin
        self.notes = notes
        self.hooks = hooks or {}
        self.env = env or {}
        self.old = list(old)
        self.ghosts = ghosts or {}
        self.assumes = list(assumes)
        REGISTRY[key] = self

    # -- modular use at call sites ----------------------------------------------------------------------
    def fn_key(self):
        ex = Extracted(self.relpath, self.qualname)
        return (ex.module_name, self.qualname)

    def match_case(self, bound: dict):
        def ok(spec_, v):
            if not isinstance(spec_, str):
                return True
            sp = spec_.strip()
            if sp == "none":
                return v is None
            if v is None:
                return False
            if sp in ("int", "nat", "pos", "bit"):
                return isinstance(v, (int, SInt)) and not isinstance(v, bool)
            if sp == "bool":
                return isinstance(v, (bool, SBool))
            if sp == "real":
                return isinstance(v, (float, int, SReal, SInt))
            if sp.startswith(("seq[", "list[")):
                return isinstance(v, (tuple, list, SSeq, SList))
            return True

        for cs in self.cases:
            if all(ok(sp, bound.get(n)) for n, sp in cs.params.items() if n in bound):
                return cs
        raise OutOfReach(f"no case of the contract of {self.qualname} matches the argument kinds at this call")

    def apply(self, interp, args, kwargs, node=None):
        """Replace a call by this contract: prove requires, fork on the exceptional cases, havoc, assume ensures."""
        ex = Extracted(self.relpath, self.qualname)
        g = self._spec_globals(ex)
        env = Env({}, None, g)
        interp.bind_params(ex.node.args, args, kwargs, env, env, _real_fn(ex))
        case = self.match_case(env.vars)
        p = paths.current()
        saved = interp.spec_globals
        interp.spec_globals = dict(self.env, at=at, implies=implies, forall=forall, exists=exists)
        for sf in self.env.values():
            if isinstance(sf, SpecFunction):
                sf._install(p)
        try:
            who = f"{interp.current_owner}#call-pre.{self.qualname}@{getattr(node, 'lineno', 0)}"
            for i, r in enumerate(self.requires + case.requires):
                t = interp.eval_spec(r, env)
                p.prove(interp._as_term(t), f"{who}.{i}", "call-pre")
            for name, expr in case.lets.items():
                env.vars[name] = interp.eval_spec(expr, env, pure=False)
            raises = case.raises if case.raises is not None else self.raises
            for exc, cond in raises.items():
                t = interp.eval_spec(cond, env)
                hit = t if isinstance(t, bool) else interp.branch(interp._as_term(t))
                if hit:
                    import builtins

                    raise getattr(builtins, exc)(f"by contract of {self.qualname}")
            # parameters that the callee does not modify: old_<p> is the (unchanged) current value
            olds = {"old_" + name: v for name, v in env.vars.items() if name not in self.modifies}
            for name in self.modifies:
                cur = env.lookup(name)
                olds["old_" + name] = _snapshot(cur)
                interp.havoc_inplace(cur, name)
            res_spec = case.result or self.result
            if res_spec is None:
                raise SpecError(f"contract of {self.qualname} used at a call site needs result=<kind>")
            result = make_value(res_spec, "ret." + self.qualname.split(".")[-1])
            env.vars.update(olds)
            env.vars["result"] = result
            for e in (case.ensures if case.ensures is not None else self.ensures):
                t = interp.eval_spec(e, env)
                p.assume(interp._as_term(t))
            interp.trace.append(f"call-by-contract {self.key}")
            return result
        finally:
            interp.spec_globals = saved

    def _spec_globals(self, ex):
        g = dict(ex.module().__dict__)
        g.update({"at": at, "implies": implies, "forall": forall, "exists": exists})
        g.update(self.env)
        return g


def _snapshot(v):
    if isinstance(v, SRec):
        return SRec(object.__getattribute__(v, "_cls"), {k: _snapshot(x) for k, x in object.__getattribute__(v, "_fields").items()})
    if isinstance(v, SList):
        return v.v
    if isinstance(v, SMap):
        return v.snapshot()
    if isinstance(v, list):
        return list(v)
    if isinstance(v, dict):
        return dict(v)
    return v


LEMMAS: dict = {}


class Lemma:
    """Inductive lemma over spec functions: forall k in [0, bound]: claim(k).

    Obligations: lemma.base (claim at 0) and lemma.step (claim(k) and 0 <= k < bound  ==>  claim(k+1)), both under
    `requires`.  A proved lemma is used from a contract through `uses=["name(args...)"]`: its requires become
    obligations at the use site and the quantified claim is assumed there."""

    def __init__(self, name, prop, params, index, bound, claim, requires=(), env=None, uses=()):
        self.name, self.prop, self.params, self.index, self.bound, self.claim = name, prop, params, index, bound, claim
        self.requires, self.env, self.uses = list(requires), env or {}, list(uses)
        self.key = f"lemma:{name}"
        self._pyvc_native_ok = True
        LEMMAS[name] = self
        if env is not None:
            env[name] = self

    def _globals(self):
        g = {"at": at, "implies": implies}
        g.update(self.env)
        return g

    def verify(self):
        rep = FunctionReport.__new__(FunctionReport)
        rep.key, rep.prop, rep.sha, rep.dropped, rep.obligations = self.key, self.prop, None, [], []
        rep.status, rep.out_of_reach, rep.error, rep.paths, rep.wall, rep.cases, rep.trace = "proved", None, None, 0, 0.0, [], set()
        t0 = time.time()
        owner = f"{self.prop}/{self.key}"
        exp = paths.Explorer()

        def run(p):
            interp = Interp()
            interp.current_owner = owner
            interp.spec_globals = self._globals()
            sym.install_pow2(p)
            for sf in self.env.values():
                if isinstance(sf, SpecFunction):
                    sf._install(p)
            vals = {n: make_value(sp, n) for n, sp in self.params.items()}
            env = Env(dict(vals), None, self._globals())
            for r in self.requires:
                p.assume(interp._as_term(interp.eval_spec(r, env)))
            for u in self.uses:
                apply_use(interp, u, env, owner)
            bound = interp.eval_spec(self.bound, env, pure=False)
            env0 = Env({self.index: 0}, env)
            p.prove(interp._as_term(interp.eval_spec(self.claim, env0)), f"{owner}#lemma.base", "lemma")
            k = sym.fresh_int(self.index)
            p.assume(z3.And(k.e >= 0, k.e < sym.as_int_term(bound)))
            envk = Env({self.index: k}, env)
            p.assume(interp._as_term(interp.eval_spec(self.claim, envk)))
            envk1 = Env({self.index: k + 1}, env)
            p.prove(interp._as_term(interp.eval_spec(self.claim, envk1)), f"{owner}#lemma.step", "lemma")

        try:
            exp.run(run)
        except (OutOfReach, SpecError) as e:
            rep.status, rep.error = "error", f"{type(e).__name__}: {e}"
        except Exception as e:
            rep.status, rep.error = "error", traceback.format_exc()[-800:]
        for o in exp.obligations:
            o.model_text = str(o.model)[:1500] if o.model is not None else None
            o.model = None
        rep.obligations = exp.obligations
        rep.paths = exp.paths
        rep.wall = time.time() - t0
        sts = {o.status for o in rep.obligations}
        if rep.status != "error":
            rep.status = "failed" if "failed" in sts else ("undecided" if "unknown" in sts else "proved")
        return rep

    def instantiate(self, interp, args, owner, at_index=None):
        """At a use site: prove requires, return the (quantified or instantiated) claim as a term."""
        p = paths.current()
        names = list(self.params)
        env = Env(dict(zip(names, args)), None, self._globals())
        saved = interp.spec_globals
        interp.spec_globals = self._globals()
        try:
            for i, r in enumerate(self.requires):
                p.prove(interp._as_term(interp.eval_spec(r, env)), f"{owner}#lemma-pre.{self.name}.{i}", "call-pre")
            bound = sym.as_int_term(interp.eval_spec(self.bound, env, pure=False))
            if at_index is not None:
                ti = sym.as_int_term(at_index)
                p.prove(z3.And(ti >= 0, ti <= bound), f"{owner}#lemma-pre.{self.name}.index", "call-pre")
                return interp._as_term(interp.eval_spec(self.claim, Env({self.index: at_index}, env)))
            k = z3.Int(sym.fresh_name(self.index))
            with interp.scope(z3.And(k >= 0, k <= bound)):
                body = interp._as_term(interp.eval_spec(self.claim, Env({self.index: SInt(k)}, env)))
            p.quantified = True
            return z3.ForAll([k], z3.Implies(z3.And(k >= 0, k <= bound), body))
        finally:
            interp.spec_globals = saved


def apply_use(interp, use, env, owner):
    """uses=["lemma(args)"] assumes forall k in [0,bound]: claim(k);  uses=["lemma(args) @ e"] assumes claim(e) only
    (after proving 0 <= e <= bound): quantifier-free, so nothing is left to the solver's instantiation heuristics."""
    at_expr = None
    if "@" in use:
        use, at_expr = [x.strip() for x in use.split("@", 1)]
    node = _parse_expr(use)
    if not (isinstance(node, ast.Call) and isinstance(node.func, ast.Name) and node.func.id in LEMMAS):
        raise SpecError(f"bad uses clause {use!r}")
    lem = LEMMAS[node.func.id]
    args = [interp.eval_spec(a, env, pure=False) for a in node.args]
    if at_expr is None:
        paths.current().assume(lem.instantiate(interp, args, owner))
    else:
        idx = interp.eval_spec(at_expr, env, pure=False)
        paths.current().assume(lem.instantiate(interp, args, owner, at_index=idx))
    interp.trace.append(f"uses lemma:{lem.name}")


class FunctionReport:
    def __init__(self, contract, ex):
        self.key = contract.key
        self.prop = contract.prop
        self.sha = ex.sha if ex else None
        self.dropped = ex.dropped if ex else []
        self.obligations = []
        self.status = "proved"
        self.out_of_reach = None
        self.error = None
        self.paths = 0
        self.wall = 0.0
        self.cases = []
        self.trace = set()

    def to_json(self):
        return dict(function=self.key, source_sha256=self.sha, status=self.status, dropped_by_extraction=self.dropped,
                    obligations=len(self.obligations), discharged=sum(o.status == "proved" for o in self.obligations),
                    paths=self.paths, wall_s=round(self.wall, 3), out_of_reach=self.out_of_reach, error=self.error,
                    callees_by_contract=sorted(self.trace))


def verify(contract: Contract, registry=None) -> FunctionReport:
    """Generate and discharge every obligation of one function, from the current source."""
    t0 = time.time()
    try:
        ex = Extracted(contract.relpath, contract.qualname)
    except Exception as e:
        rep = FunctionReport(contract, None)
        rep.status, rep.error = "error", f"extraction failed: {e}"
        return rep
    rep = FunctionReport(contract, ex)
    reg = {}
    for c in (registry if registry is not None else REGISTRY).values():
        if c.key != contract.key and c.key not in contract.inline:  # an explicit inline request overrides call-by-contract
            try:
                reg[c.fn_key()] = c
            except Exception:
                pass
    inline_keys = set(contract.inline)

    def inline(fn):
        mod, qn = getattr(fn, "__module__", None), getattr(fn, "__qualname__", None)
        if mod is None or qn is None:
            return None
        for k in inline_keys:
            rel, q = k.rsplit(":", 1)
            if module_name_of(rel) == mod and q == qn:
                e2 = Extracted(rel, q)
                # loops inside inlined helpers are only unrolled (no invariants)
                for n in ast.walk(e2.node):
                    if hasattr(n, "_pyvc_ordinal"):
                        n._pyvc_ordinal = ("inl", q, n._pyvc_ordinal)
                return e2.node, e2.module().__dict__, fn
        return None

    for case in contract.cases:
        ex_case = Explorer_for(contract, case, ex, reg, inline, rep)
        rep.cases.append(case.name)
        if rep.status in ("error",):
            break
    rep.wall = time.time() - t0
    sts = {o.status for o in rep.obligations}
    if rep.status not in ("error", "out-of-reach"):
        if "failed" in sts:
            rep.status = "failed"
        elif "unknown" in sts:
            rep.status = "undecided"
        elif not rep.obligations:
            rep.status = "error"
            rep.error = "zero obligations generated (vacuity guard)"
    return rep


def Explorer_for(contract, case, ex, reg, inline, rep):
    owner = f"{contract.prop}/{contract.key}" + (f"[{case.name}]" if len(contract.cases) > 1 else "")
    loops = {}
    for k, v in {**contract.loops, **(case.loops or {})}.items():
        loops[k] = LoopSpec(owner, **v)
    exp = paths.Explorer()
    first = [True]

    def run(p):
        holder = {}
        n0 = len(exp.obligations)
        try:
            run_inner(p, holder)
        finally:
            from .native import concretize

            for ob in exp.obligations[n0:]:
                ob.case = case.name
                if ob.status == "failed" and ob.model is not None and "vals" in holder:
                    ob.concrete = concretize(ob.model, holder["vals"])
                ob.model_text = str(ob.model)[:2000] if ob.model is not None else None
                ob.model = None  # z3 models are not picklable

    def run_inner(p, holder):
        interp = Interp(registry=reg, inline=inline, loop_specs=loops, hooks=contract.hooks)
        interp.current_owner = owner
        interp.local_models = dict(contract.models)
        g = contract._spec_globals(ex)
        interp.spec_globals = dict(contract.env, at=at, implies=implies, forall=forall, exists=exists)
        sym.install_pow2(p)
        for sf in contract.env.values():
            if isinstance(sf, SpecFunction):
                sf._install(p)
        # parameters
        vals = {}
        if case.setup is not None:
            vals = case.setup(interp)
        else:
            for name, spec_ in case.params.items():
                vals[name] = make_value(spec_, name)
        ghosts = {}
        for name, spec_ in {**contract.ghosts, **case.ghosts}.items():
            ghosts[name] = make_value(spec_, name)
        interp.ghost_env.update(ghosts)
        holder["vals"] = {k: _snapshot(v) for k, v in vals.items()}
        entry = {k: _snapshot(v) for k, v in vals.items()}
        interp.ghost_env.update({"old_" + k: v for k, v in entry.items()})
        specenv = Env(dict(entry), None, g)
        specenv.vars.update(ghosts)
        for r in contract.requires + case.requires:
            p.assume(interp._as_term(interp.eval_spec(r, specenv)))
        lets = {}
        for name, expr in case.lets.items():
            lets[name] = interp.eval_spec(expr, specenv, pure=False)
            specenv.vars[name] = lets[name]
        interp.ghost_env.update(lets)
        if first[0]:
            first[0] = False
            r = p.qf.check()
            st = "proved" if r == z3.sat else "failed"
            backend = "z3(sat of the quantifier-free part of requires; quantified parts are exercised by the native stand-in)" \
                if p.quantified else "z3(sat)"
            exp.obligations.append(paths.Obligation(f"{owner}#pre-sat", "pre-sat", st, 0.0, backend,
                                                    detail="" if st == "proved" else "precondition unsatisfiable"))
        # run the real body
        fenv = Env({}, None, ex.module().__dict__)
        argnames = [a.arg for a in ex.node.args.posonlyargs + ex.node.args.args + ex.node.args.kwonlyargs]
        kw = {k: v for k, v in vals.items() if k in argnames}
        extra = {k: v for k, v in vals.items() if k not in argnames}
        if ex.node.args.vararg and ex.node.args.vararg.arg in extra:
            raise SpecError("varargs parameters must be bound through setup")
        outcome, value = None, None
        try:
            interp.top = ex.node
            sub = Env({}, fenv, fenv.globals)
            interp.bind_params(ex.node.args, [], kw, sub, fenv, _real_fn(ex))
            try:
                interp.exec_block(ex.node.body, sub)
                outcome, value = "return", None
            except _Return as r:
                outcome, value = "return", r.v
        except (paths.Infeasible, paths.PathEnd, OutOfReach, SpecError):
            raise
        except Exception as e:  # Python-level exception raised by the interpreted code
            if getattr(e, "_pyvc_internal", False):
                raise
            outcome, value = "raise", e
        rep.trace.update(interp.trace)
        post_env = Env(dict(entry), None, g)
        post_env.vars.update(interp.ghost_env)
        post_env.vars.update(lets)
        for u in contract.uses:
            try:
                apply_use(interp, u, post_env, owner)
            except NameError:
                pass  # the lemma's arguments are ghosts that do not exist on this path (e.g. loop never reached)
        for k, v in vals.items():
            if isinstance(v, (SList, SMap, SRec, list, dict)):
                post_env.vars["old_" + k] = entry[k]
                post_env.vars[k] = v
        ens = case.ensures if case.ensures is not None else contract.ensures
        raises = case.raises if case.raises is not None else contract.raises
        may = case.may_raise if case.may_raise is not None else contract.may_raise
        if outcome == "return":
            post_env.vars["result"] = value
            for u in contract.post_uses:
                apply_use(interp, u, post_env, owner)
            for i, e in enumerate(ens):
                t = interp.eval_spec(e, post_env)
                p.prove(interp._as_term(t), f"{owner}#post.{i}", "post")
            for exc, cond in raises.items():
                t = interp.eval_spec(cond, post_env)
                p.prove(z3.Not(interp._as_term(t)), f"{owner}#post.noraise.{exc}", "post")
        else:
            en = type(value).__name__
            if en in raises:
                t = interp.eval_spec(raises[en], post_env)
                p.prove(interp._as_term(t), f"{owner}#exc.{en}", "exc")
            elif en in may:
                t = interp.eval_spec(may[en], post_env)
                p.prove(interp._as_term(t), f"{owner}#exc.{en}", "exc")
            else:
                tb = traceback.format_exception(type(value), value, value.__traceback__)
                interp.unexpected.append("unexpected " + en + ": " + str(value)[:200] + " @ " + (tb[-2].strip().splitlines()[0] if len(tb) > 1 else ""))
                ob = p.prove(False, f"{owner}#exc.unexpected.{en}", "exc")
                if ob is not None and ob.status != "proved":
                    ob.detail = (ob.detail + " | " + interp.unexpected[-1])[:600]

    try:
        exp.run(run)
    except OutOfReach as e:
        rep.status, rep.out_of_reach = "out-of-reach", str(e)
    except SpecError as e:
        rep.status, rep.error = "error", f"SpecError: {e}"
    except Exception as e:
        rep.status, rep.error = "error", "".join(traceback.format_exception_only(type(e), e)).strip() + " @ " + \
            traceback.format_exc().strip().splitlines()[-3].strip()
    if exp.truncated and rep.status == "proved":
        rep.status, rep.out_of_reach = "out-of-reach", "path budget exceeded"
    rep.obligations.extend(_dedup(exp.obligations))
    rep.paths += exp.paths
    return exp


def _dedup(obls):
    """Same obligation name on several paths: keep all (each is a separate query) but number them."""
    seen = {}
    out = []
    for o in obls:
        n = seen.get(o.name, 0)
        seen[o.name] = n + 1
        if o.pathid:
            o.name = f"{o.name}[path {o.pathid}]"
        out.append(o)
    return out


def _real_fn(ex):
    try:
        obj = ex.module()
        for p in ex.qualname.split("."):
            obj = inspect.getattr_static(obj, p) if inspect.isclass(obj) else getattr(obj, p)
        if isinstance(obj, (staticmethod, classmethod)):
            obj = obj.__func__
        if isinstance(obj, property):
            obj = obj.fget
        return obj
    except Exception:
        return None
