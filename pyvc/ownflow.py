"""ownflow — ownership obligations for copy methods (a small type-level alias analysis over the real AST).

Shape of the property: `x.copy()` must give an object whose later mutation cannot change `x` (and vice versa).
For each field the sidecar declares its *mutable depth* (dict of lists = 2, dict of immutables = 1, ...).  The copy
method's expression for the field has a *copy depth* (how many container levels are freshly created):
    e            -> 0        e.copy() / dict(e) / list(e) / set(e) / e[:]   -> 1
    {k: v.copy() for k, v in e.items()} / {k: list(v) ...} / [list(v) for v in e]  -> 2      copy.deepcopy(e) -> inf
Every in-place mutation of the field anywhere in the class happens at some level L (self.f[k] = v is level 1,
self.f[k].append(v) is level 2, also through a local alias bound to self.f[k]).  Obligation, one per mutation site:
    L <= copy depth of the field   (the mutated container is not shared between an object and its copy).
A shallow `copy.copy(self)` has copy depth 0 for every field it does not re-copy afterwards.
"""
from __future__ import annotations

import ast
import os
import time

from . import api, paths

MUTATORS = {"append", "extend", "insert", "pop", "remove", "clear", "sort", "reverse", "update", "add", "discard", "setdefault",
            "popitem", "__setitem__", "__delitem__"}
INF = 99


class OwnSpec:
    def __init__(self, prop, relpath, cls, copy_method, fields, extra_classes=(), ctor_kw=None, shallow_self_copy=False):
        self.prop, self.relpath, self.cls, self.copy_method, self.fields = prop, relpath, cls, copy_method, fields
        self.extra_classes = list(extra_classes)  # (relpath, class) of subclasses whose methods also mutate the fields
        self.ctor_kw = ctor_kw or {}  # constructor keyword -> field name (when copy() calls the constructor)
        self.shallow_self_copy = shallow_self_copy
        self.any_base = shallow_self_copy


def _src(relpath):
    return api.SOURCE_OVERRIDES.get(relpath) or open(os.path.join(api.REPO, relpath)).read()


def _class(relpath, name):
    tree = ast.parse(_src(relpath))
    return next(n for n in tree.body if isinstance(n, ast.ClassDef) and n.name == name)


ANY_BASE = False  # True: <any local name>.<field> counts (objects obtained by copy.copy(self) are aliases of the same class)


def _self_field(node, fields, selfname="self"):
    """node == self.<f>  ->  f"""
    if isinstance(node, ast.Attribute) and isinstance(node.value, ast.Name) and (node.value.id == selfname or ANY_BASE) and node.attr in fields:
        return node.attr
    return None


def copy_depth(expr, fields, selfname="self"):
    """(field, depth) for an expression built from one field of self; None if it does not mention a field."""
    f = _self_field(expr, fields, selfname)
    if f:
        return f, 0
    if isinstance(expr, ast.Call):
        fn = expr.func
        # copy.deepcopy(e)
        if isinstance(fn, ast.Attribute) and fn.attr == "deepcopy" and expr.args:
            r = copy_depth(expr.args[0], fields, selfname)
            return (r[0], INF) if r else None
        # e.copy()
        if isinstance(fn, ast.Attribute) and fn.attr == "copy" and not expr.args:
            r = copy_depth(fn.value, fields, selfname)
            return (r[0], r[1] + 1 if r[1] == 0 else r[1]) if r else None
        # dict(e) / list(e) / set(e) / tuple(e)
        if isinstance(fn, ast.Name) and fn.id in ("dict", "list", "set", "frozenset", "tuple", "OrderedDict") and len(expr.args) == 1:
            r = copy_depth(expr.args[0], fields, selfname)
            return (r[0], max(r[1], 1)) if r else None
    if isinstance(expr, ast.Subscript) and isinstance(expr.slice, ast.Slice) and expr.slice.lower is None and expr.slice.upper is None:
        r = copy_depth(expr.value, fields, selfname)
        return (r[0], max(r[1], 1)) if r else None
    if isinstance(expr, (ast.DictComp, ast.ListComp, ast.SetComp)) and len(expr.generators) == 1:
        g = expr.generators[0]
        src = g.iter
        if isinstance(src, ast.Call) and isinstance(src.func, ast.Attribute) and src.func.attr in ("items", "values") and not src.args:
            src = src.func.value
        r = copy_depth(src, fields, selfname)
        if not r:
            return None
        # is the element itself freshly copied?
        val = expr.value if isinstance(expr, ast.DictComp) else expr.elt
        names = {n.id for n in ast.walk(g.target) if isinstance(n, ast.Name)}
        inner = 0
        if isinstance(val, ast.Call):
            fn = val.func
            if isinstance(fn, ast.Attribute) and fn.attr == "copy" and isinstance(fn.value, ast.Name) and fn.value.id in names:
                inner = 1
            if isinstance(fn, ast.Name) and fn.id in ("list", "dict", "set", "tuple") and val.args and isinstance(val.args[0], ast.Name) and val.args[0].id in names:
                inner = 1
            if isinstance(fn, ast.Attribute) and fn.attr == "deepcopy":
                inner = INF
        if isinstance(val, ast.Subscript) and isinstance(val.slice, ast.Slice) and isinstance(val.value, ast.Name) and val.value.id in names:
            inner = 1
        return r[0], 1 + inner
    return None


def mutation_sites(cls_node, fields):
    """[(field, level, line, method)] of in-place mutations of self.<field> (directly or through a local alias)."""
    out = []
    for m in cls_node.body:
        if not isinstance(m, ast.FunctionDef) or m.name == "__init__":
            continue
        alias = {}  # local name -> (field, level of the object it denotes)

        def obj_level(node):
            """(field, level) of the container denoted by node: self.f -> 1 ; self.f[k] -> 2 ; alias -> its level"""
            f = _self_field(node, fields)
            if f:
                return f, 1
            if isinstance(node, ast.Name) and node.id in alias:
                return alias[node.id]
            if isinstance(node, ast.Subscript):
                r = obj_level(node.value)
                if r:
                    return r[0], r[1] + 1
            if isinstance(node, ast.Call) and isinstance(node.func, ast.Attribute) and node.func.attr in ("get", "setdefault", "__getitem__"):
                r = obj_level(node.func.value)
                if r:
                    return r[0], r[1] + 1
            return None

        for n in ast.walk(m):
            if isinstance(n, ast.Assign) and len(n.targets) == 1 and isinstance(n.targets[0], ast.Name):
                r = obj_level(n.value)
                if r:
                    alias[n.targets[0].id] = r
        for n in ast.walk(m):
            if isinstance(n, (ast.Assign, ast.AugAssign, ast.Delete)):
                targets = n.targets if isinstance(n, (ast.Assign, ast.Delete)) else [n.target]
                flat = []
                for t in targets:
                    flat.extend(t.elts if isinstance(t, (ast.Tuple, ast.List)) else [t])
                for t in flat:
                    if isinstance(t, ast.Subscript):
                        r = obj_level(t.value)
                        if r:
                            out.append((r[0], r[1], n.lineno, m.name))
            if isinstance(n, ast.Call) and isinstance(n.func, ast.Attribute) and n.func.attr in MUTATORS:
                r = obj_level(n.func.value)
                if r:
                    out.append((r[0], r[1], n.lineno, m.name))
    return out


def check(spec: OwnSpec):
    global ANY_BASE
    ANY_BASE = bool(getattr(spec, "any_base", False))
    try:
        return _check(spec)
    finally:
        ANY_BASE = False


def _check(spec: OwnSpec):
    t0 = time.time()
    rep = api.FunctionReport.__new__(api.FunctionReport)
    rep.key = f"{spec.relpath}:{spec.cls}.{spec.copy_method}[ownership]"
    rep.prop, rep.sha, rep.dropped, rep.obligations = spec.prop, None, ["ownflow reads the class body as is (nothing dropped)"], []
    rep.status, rep.out_of_reach, rep.error, rep.paths, rep.wall, rep.cases, rep.trace = "proved", None, None, 0, 0.0, [], set()
    cls = _class(spec.relpath, spec.cls)
    copy_m = next((m for m in cls.body if isinstance(m, ast.FunctionDef) and m.name == spec.copy_method), None)
    if copy_m is None:
        rep.status, rep.error = "error", f"{spec.cls}.{spec.copy_method} not found"
        return rep
    fields = set(spec.fields)
    depth = {f: None for f in fields}
    if spec.shallow_self_copy:
        depth = {f: 0 for f in fields}
        # out = copy.copy(self); out.f = <expr of self.f>   re-copies
        for n in ast.walk(copy_m):
            if isinstance(n, ast.Assign) and len(n.targets) == 1 and isinstance(n.targets[0], ast.Attribute) and n.targets[0].attr in fields:
                r = copy_depth(n.value, fields)
                depth[n.targets[0].attr] = r[1] if r and r[0] == n.targets[0].attr else INF
    else:
        for n in ast.walk(copy_m):
            if isinstance(n, ast.Call):
                for kw in n.keywords:
                    f = spec.ctor_kw.get(kw.arg)
                    if f:
                        r = copy_depth(kw.value, fields)
                        depth[f] = r[1] if r and r[0] == f else (INF if r is None else 0)
    sites = []
    for relpath, cname in [(spec.relpath, spec.cls)] + spec.extra_classes:
        for s in mutation_sites(_class(relpath, cname), fields):
            sites.append(s + (f"{relpath}:{cname}",))
    for f in sorted(fields):
        d = depth.get(f)
        name = f"{spec.prop}/{spec.relpath}:{spec.cls}.{spec.copy_method}#own.field-copied({f})"
        ok = d is not None
        o = paths.Obligation(name, "frame", "proved" if ok else "failed", 0.0, "ownflow",
                             detail="" if ok else f"{spec.copy_method}() does not pass field {f} on (cannot determine what the copy holds)")
        o.case = spec.copy_method
        rep.obligations.append(o)
    for f, level, line, meth, where in sorted(sites):
        d = depth.get(f) or 0
        need = min(level, spec.fields[f])
        ok = need <= d
        o = paths.Obligation(
            f"{spec.prop}/{where}.{meth}#own.unshared-after-copy({f}, level {level})@{line}", "frame", "proved" if ok else "failed", 0.0, "ownflow",
            detail="" if ok else f"{where}.{meth} line {line} mutates level {level} of self.{f} in place, but {spec.cls}.{spec.copy_method}() only "
                                 f"copies {d} level(s) of it: the container is shared between an object and its copy")
        o.case = meth
        rep.obligations.append(o)
    rep.wall = time.time() - t0
    rep.status = "failed" if any(o.status == "failed" for o in rep.obligations) else "proved"
    return rep
