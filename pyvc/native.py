"""Native (CPython) evaluation of the same contracts on the real functions.

Used for (a) replaying solver counter-models, (b) the bounded stand-ins, (c) the cross-check that the
solver's reading of a contract and CPython's agree.  Nothing here is counted as proved."""
from __future__ import annotations

import copy
import importlib
import inspect
import os
import sys
import traceback

from . import api

_SRC_OVERRIDE: dict = {}  # relpath -> source text (canaries: patched in memory, never on disk)


def real_function(contract):
    """The real function object from /repo's working tree (or its in-memory patched variant)."""
    ex = api.Extracted(contract.relpath, contract.qualname)
    mod = ex.module()
    if contract.relpath in api.SOURCE_OVERRIDES:
        # compile the patched module text into a scratch namespace that shares nothing with the real one
        ns = {"__name__": mod.__name__, "__package__": mod.__package__, "__file__": mod.__file__}
        exec(compile(api.SOURCE_OVERRIDES[contract.relpath], mod.__file__, "exec"), ns)
        obj = ns
        parts = contract.qualname.split(".")
        o = ns[parts[0]]
        for p in parts[1:]:
            o = inspect.getattr_static(o, p)
        obj = o
    else:
        obj = mod
        for p in contract.qualname.split("."):
            obj = inspect.getattr_static(obj, p) if inspect.isclass(obj) else getattr(obj, p)
    if isinstance(obj, (staticmethod, classmethod)):
        obj = obj.__func__
    if isinstance(obj, property):
        obj = obj.fget
    return obj


def _env(contract, ex, values):
    g = dict(ex.module().__dict__)
    g.update({"at": api.at, "implies": api.implies})
    g.update(contract.env)
    g.update(values)
    return g


def check_once(contract, case, args: dict, fn=None):
    """Run the real function on concrete `args` and evaluate the contract natively.

    Returns (verdict, info): verdict in {'ok', 'skip' (precondition false), 'violation'}."""
    ex = api.Extracted(contract.relpath, contract.qualname)
    fn = fn or real_function(contract)
    entry = copy.deepcopy(args)
    env0 = _env(contract, ex, dict(entry))
    if contract.native_post is None:
        try:
            for r in list(contract.requires) + list(case.requires):
                if not eval(r, env0):
                    return "skip", None
        except Exception as e:
            return "skip", f"requires raised {type(e).__name__}"
    lets = {}
    for name, expr in (case.lets.items() if contract.native_post is None else ()):
        lets[name] = eval(expr, env0)
        env0[name] = lets[name]
    call_args = copy.deepcopy(args)
    argnames = [a.arg for a in ex.node.args.posonlyargs + ex.node.args.args + ex.node.args.kwonlyargs]
    kw = {k: v for k, v in call_args.items() if k in argnames}
    outcome, value = "return", None
    try:
        if case.native_call is not None:
            value = case.native_call(fn, call_args)
        else:
            value = fn(**kw)
    except Exception as e:  # the real function raised
        outcome, value = "raise", e
    env = _env(contract, ex, dict(entry))
    env.update(lets)
    for k, v in call_args.items():
        if isinstance(v, (list, dict, set)) or hasattr(v, "__dict__"):
            env["old_" + k] = entry[k]
            env[k] = v
    ens = case.ensures if case.ensures is not None else contract.ensures
    raises = case.raises if case.raises is not None else contract.raises
    may = case.may_raise if case.may_raise is not None else contract.may_raise
    info = dict(args=_jsonable(entry), args_py=repr(entry), outcome=outcome, value=_jsonable(value if outcome == "return" else repr(value)))
    if contract.native_post is not None:
        # contracts over abstract sorts: the executable form of the same clauses is a Python callable
        try:
            msg = contract.native_post(case.name, entry, call_args, outcome, value)
        except Exception as e:
            info.update(failed="contract-eval-error", clause="".join(traceback.format_exception_only(type(e), e)).strip())
            return "error", info
        if msg == "skip":
            return "skip", None
        if msg:
            info.update(failed="native-post", clause=msg)
            return "violation", info
        return "ok", info
    try:
        if outcome == "return":
            env["result"] = value
            for i, e in enumerate(ens):
                if not eval(e, env):
                    info.update(failed=f"post.{i}", clause=e)
                    return "violation", info
            for exc, cond in raises.items():
                if eval(cond, env):
                    info.update(failed=f"post.noraise.{exc}", clause=f"must raise {exc} when: {cond}")
                    return "violation", info
        else:
            en = type(value).__name__
            cond = raises.get(en, may.get(en))
            if cond is None:
                info.update(failed=f"exc.unexpected.{en}", clause=f"no contract clause permits {en}: {value}")
                return "violation", info
            if not eval(cond, env):
                info.update(failed=f"exc.{en}", clause=f"{en} raised although not ({cond})")
                return "violation", info
    except Exception as e:
        info.update(failed="contract-eval-error", clause="".join(traceback.format_exception_only(type(e), e)).strip())
        return "error", info
    return "ok", info


def _jsonable(v, depth=0):
    try:
        import numpy as np
    except ImportError:  # pragma: no cover
        np = None
    if depth > 6:
        return repr(v)
    if isinstance(v, (type(None), bool, int, float, str)):
        return v
    if np is not None and isinstance(v, np.ndarray):
        return dict(ndarray=v.tolist(), dtype=str(v.dtype))
    if np is not None and isinstance(v, np.generic):
        return v.item()
    if isinstance(v, (list, tuple)):
        return [_jsonable(x, depth + 1) for x in v]
    if isinstance(v, (set, frozenset)):
        return sorted((_jsonable(x, depth + 1) for x in v), key=repr)
    if isinstance(v, dict):
        return {str(k): _jsonable(x, depth + 1) for k, x in v.items()}
    return repr(v)


def concretize(model, vals: dict, max_len=10):
    """Turn a z3 model into concrete Python arguments for the parameter values created by make_value.
    Returns None when a value cannot be concretised generically."""
    import z3

    from . import sym

    def ev(t):
        return model.eval(t, model_completion=True)

    def scalar(v):
        if isinstance(v, sym.SBool):
            return z3.is_true(ev(v.e))
        if isinstance(v, sym.SInt):
            return ev(v.e).as_long()
        if isinstance(v, sym.SReal):
            r = ev(v.e)
            try:
                return float(r.as_fraction())
            except Exception:
                return float(r.approx(12).as_fraction())
        return v

    def conv(v):
        if isinstance(v, (sym.SBool, sym.SInt, sym.SReal)):
            return scalar(v)
        if isinstance(v, (sym.SSeq, sym.SList)):
            s = sym.seq_of(v)
            n = ev(s.n).as_long()
            if n < 0 or n > max_len:
                raise ValueError("model sequence too long")
            items = []
            for i in range(n):
                t = ev(z3.Select(s.a, i))
                if z3.is_int_value(t):
                    items.append(t.as_long())
                elif z3.is_true(t) or z3.is_false(t):
                    items.append(z3.is_true(t))
                else:
                    try:
                        items.append(float(t.as_fraction()))
                    except Exception:
                        raise ValueError("unsupported element")
            return list(items) if isinstance(v, sym.SList) or s.pytype is list else tuple(items)
        if isinstance(v, tuple):
            return tuple(conv(x) for x in v)
        if isinstance(v, list):
            return [conv(x) for x in v]
        if isinstance(v, sym.Sym):
            raise ValueError(f"cannot concretise {type(v).__name__}")
        return v

    try:
        return {k: conv(v) for k, v in vals.items()}
    except Exception:
        return None


def patch_module_functions(relpath, patched_text):
    """Canaries for engines that execute the real code natively: compile the patched module text in a scratch namespace and
    graft every function / method whose code changed onto the live module objects.  Returns an undo() callable."""
    import types

    modname = api.module_name_of(relpath)
    mod = importlib.import_module(modname)
    ns = {"__name__": mod.__name__, "__package__": mod.__package__, "__file__": mod.__file__}
    exec(compile(patched_text, mod.__file__, "exec"), ns)
    undo = []

    def code_of(f):
        f = getattr(f, "__func__", f)
        f = getattr(f, "fget", f) if isinstance(f, property) else f
        return getattr(f, "__code__", None)

    for name, new in ns.items():
        old = mod.__dict__.get(name)
        if isinstance(new, types.FunctionType) and isinstance(old, types.FunctionType) and (new.__code__.co_code != old.__code__.co_code or new.__code__.co_consts != old.__code__.co_consts or new.__code__.co_names != old.__code__.co_names):
            undo.append((mod, name, old))
            setattr(mod, name, new)
        elif isinstance(new, type) and isinstance(old, type):
            for attr, nv in list(vars(new).items()):
                ov = vars(old).get(attr)
                c1, c2 = code_of(nv), code_of(ov) if ov is not None else None
                if c1 is not None and (c2 is None or c1.co_code != c2.co_code or c1.co_consts != c2.co_consts or c1.co_names != c2.co_names):
                    undo.append((old, attr, ov))
                    setattr(old, attr, nv)

    def restore():
        for obj, attr, ov in reversed(undo):
            if ov is None:
                delattr(obj, attr)
            else:
                setattr(obj, attr, ov)

    return restore, len(undo)
