import argparse
import os
import sys


def main():
    ap = argparse.ArgumentParser()
    ap.add_argument("property")
    ap.add_argument("--tier", default=os.environ.get("VERIF_TIER", "quick"), choices=["quick", "thorough"])
    ap.add_argument("--replay")
    ap.add_argument("--jobs", type=int, default=None)
    a = ap.parse_args()
    seed = int(os.environ.get("VERIF_SEED", "0"))
    os.environ["VERIF_TIER"] = a.tier
    from . import runner

    levels = __import__("json").load(open(os.path.join(runner.VERIF, "levels.json")))
    if a.replay:
        sys.exit(runner.replay_file(a.property, a.replay))
    sys.exit(runner.run_property(a.property, a.tier, seed, a.jobs, level=levels.get(a.property, "other")))


if __name__ == "__main__":
    try:
        main()
    except SystemExit:
        raise
    except BaseException:
        import traceback

        traceback.print_exc()
        print("CHECKER-ERROR: crash in the checker")
        sys.exit(3)
