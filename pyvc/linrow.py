"""linrow — in-place tensor kernels as linear maps on sub-space rows, for EVERY tensor content and parameter value.

A tensor is seen through the k axes a kernel acts on: for each label (one digit per target axis) there is a *row* — the
sub-tensor of all amplitudes with those digits — represented as a formal linear combination of the rows of the input
target tensor (`in[label]`) and of the scratch buffer (`buf[label]`, arbitrary garbage), with trigpoly coefficients.
The REAL kernel (`_apply_unitary_`) runs natively on these proxies, through the real `ApplyUnitaryArgs.subspace_index`
and the real `apply_matrix_to_slices`.  Afterwards the returned tensor must hold  phase * (M ⊗ id) in  with no buffer
component.  No loop over amplitudes is involved, so this is a complete proof for all tensor sizes and contents (given the
C01 contract of `subspace_index`: an index tuple fixes exactly the target digits), for every placement of the target
axes that is run, and for all parameter values (symbolic parameters; comparisons on them explore both outcomes)."""
from __future__ import annotations

import itertools
import time

import numpy as np

from . import api, paths, trigpoly
from .sym import OutOfReach
from .trigpoly import Angle, TrigPoly


class Rows:
    """value: {label: {basis key: TrigPoly}} for a set of labels (a view's content, detached from any tensor)"""

    def __init__(self, rows):
        self.rows = rows

    def _map(self, f):
        return Rows({lab: {k: f(v) for k, v in vec.items()} for lab, vec in self.rows.items()})

    def __mul__(self, c):
        c = _scalar(c)
        return self._map(lambda v: v * c)

    __rmul__ = __mul__

    def __neg__(self):
        return self._map(lambda v: -v)

    def _zip(self, o, sign):
        o = _as_rows(o, self.rows.keys())
        if sorted(o.rows) != sorted(self.rows):
            raise ValueError("shape mismatch between sub-space views")
        out = {}
        for lab in self.rows:
            vec = dict(self.rows[lab])
            for k, v in o.rows[lab].items():
                vec[k] = vec.get(k, TrigPoly()) + (v if sign > 0 else -v)
            out[lab] = {k: v for k, v in vec.items() if v.t}
        return Rows(out)

    def __add__(self, o):
        return self._zip(o, 1)

    __radd__ = __add__

    def __sub__(self, o):
        return self._zip(o, -1)

    def __rsub__(self, o):
        return (-self)._zip(o, 1)

    __imul__ = __mul__
    __iadd__ = __add__
    __isub__ = __sub__

    def __truediv__(self, c):
        return self * (TrigPoly.const(1) / _scalar(c))

    __itruediv__ = __truediv__

    def conj(self):
        return self._map(lambda v: v.conjugate())


def _scalar(c):
    if isinstance(c, Angle):
        if c.is_number():
            return TrigPoly.const(c.number())
        raise TypeError("scalar multiplication by a symbolic real (not a phase)")
    return TrigPoly.const(c)


def _as_rows(o, labels):
    if isinstance(o, Rows):
        if len(o.rows) == 1 and len(list(labels)) > 1:  # broadcast of a single row is not used by kernels
            raise ValueError("broadcast")
        if set(o.rows) != set(labels):
            # relabel positionally (same number of rows, e.g. buffer[a] = target[b])
            if len(o.rows) == len(list(labels)):
                return Rows(dict(zip(sorted(labels), [o.rows[k] for k in sorted(o.rows)])))
        return o
    if isinstance(o, (int, float, complex)) and o == 0:
        return Rows({lab: {} for lab in labels})
    raise TypeError(f"cannot assign {type(o).__name__} into a sub-space view")


class LinTensor:
    """proxy for the numpy tensor; `axes` are the positions of the target axes inside `shape` (in kernel order)"""

    def __init__(self, name, shape, axes, fill):
        self.name, self.shape, self.axes = name, tuple(shape), list(axes)
        self.ndim = len(shape)
        self.dtype = np.dtype(np.complex128)
        dims = [shape[a] for a in axes]
        self.rows = {lab: ({(fill, lab): TrigPoly.const(1)} if fill else {}) for lab in itertools.product(*[range(d) for d in dims])}
        self.writes = 0

    def _labels(self, idx):
        """labels selected by an index tuple produced by subspace_index / slice_for_qubits_equal_to"""
        if not isinstance(idx, tuple):
            idx = (idx,)
        if any(x is Ellipsis for x in idx):
            i = idx.index(Ellipsis)
            idx = idx[:i] + (slice(None),) * (self.ndim - len(idx) + 1) + idx[i + 1:]
        idx = idx + (slice(None),) * (self.ndim - len(idx))
        for pos, x in enumerate(idx):
            if pos not in self.axes and not (isinstance(x, slice) and x == slice(None)):
                raise OutOfReach(f"kernel indexes a non-target axis ({pos}) of the tensor")
        choices = []
        for a in self.axes:
            x = idx[a]
            if isinstance(x, (int, np.integer)):
                choices.append([int(x)])
            elif isinstance(x, slice) and x == slice(None):
                choices.append(list(range(self.shape[a])))
            else:
                raise OutOfReach(f"unsupported index {x!r} on a target axis")
        return list(itertools.product(*choices))

    def __getitem__(self, idx):
        return Rows({lab: dict(self.rows[lab]) for lab in self._labels(idx)})

    def __setitem__(self, idx, value):
        labs = self._labels(idx)
        value = _as_rows(value, labs)
        if len(value.rows) != len(labs):
            raise ValueError("shape mismatch in sub-space assignment")
        src = [value.rows[k] for k in sorted(value.rows)]
        for lab, vec in zip(sorted(labs), src):
            self.rows[lab] = dict(vec)
        self.writes += 1

    def __imul__(self, c):
        c = _scalar(c)
        for lab in self.rows:
            self.rows[lab] = {k: v * c for k, v in self.rows[lab].items()}
        self.writes += 1
        return self

    def __itruediv__(self, c):
        return self.__imul__(TrigPoly.const(1) / _scalar(c))


class Decisions:
    """Comparison outcomes on symbolic parameters: explored exhaustively by re-execution."""

    def __init__(self, script):
        self.script, self.pos = list(script), 0
        self.alternatives = []
        self.assumed_equal = []   # (poly, poly) pairs assumed equal on this run
        self.concretize = []      # (symbol name, value) discovered: rerun with the parameter fixed to that number

    def _next(self):
        if self.pos < len(self.script):
            d = self.script[self.pos]
        else:
            d = False
            self.alternatives.append(self.script[: self.pos] + [True])
            self.script.append(d)
        self.pos += 1
        return d

    def decide_poly_equal(self, a, b):
        d = self._next()
        if d:
            self.assumed_equal.append((a, b))
        return d

    def decide_angle_equal(self, a, b):
        # a - b is a non-constant expression in the parameters: equality holds on a lower-dimensional set.
        diff = a - b
        syms = sorted({s for k in diff.m for s in k if s != "pi"})
        d = self._next()
        if d:
            # only 'single symbol == number' can be turned into a concrete rerun
            if len(diff.m) <= 2 and len(syms) == 1 and all(k in ((), (syms[0],), ("pi",)) for k in diff.m) and not diff.imag:
                coef = diff.m.get((syms[0],), 0)
                rest = -(Angle({k: v for k, v in diff.m.items() if k != (syms[0],)}))
                val = rest * (1 / coef)
                self.concretize.append((syms[0], val))
                raise Rerun()
            raise trigpoly.Undecided(f"equality between symbolic parameters: {a!r} == {b!r}")
        return d


class Rerun(Exception):
    pass


class KernelCase:
    def __init__(self, name, make_gate, params, spec_matrix, phase=None, qid_shape=(2,), declines=None):
        """make_gate(**params) -> gate; params: {symbol: list of concrete specials}; spec_matrix(**params) -> object matrix;
        phase(**params) -> TrigPoly global factor (default 1); declines(**params) -> True if the kernel is allowed/expected
        to return NotImplemented/None for these parameter values (None = never)."""
        self.name, self.make_gate, self.params, self.spec_matrix = name, make_gate, params, spec_matrix
        self.phase, self.qid_shape, self.declines = phase, tuple(qid_shape), declines


def _placements(k, total):
    """a few placements of k target axes among `total` tensor axes, incl. permuted and non-adjacent ones"""
    out = [tuple(range(k))]
    if total > k:
        out.append(tuple(range(total - k, total)))
        out.append(tuple(reversed(range(total - k, total))))
        out.append(tuple(range(0, 2 * k, 2))[:k] if 2 * k - 1 <= total else tuple(range(k)))
    out.append(tuple(reversed(range(k))))
    seen, res = set(), []
    for p in out:
        if p not in seen and len(set(p)) == k and max(p) < total:
            seen.add(p)
            res.append(p)
    return res


def run_kernel(gate, qid_shape, axes, total_axes, method="_apply_unitary_"):
    """Execute the real kernel on proxies. Returns (result, target, buffer)."""
    import cirq

    shape = [2] * total_axes
    for a, d in zip(axes, qid_shape):
        shape[a] = d
    target = LinTensor("target", shape, axes, "in")
    buffer = LinTensor("buffer", shape, axes, "buf")
    args = cirq.ApplyUnitaryArgs(target_tensor=target, available_buffer=buffer, axes=list(axes))
    res = getattr(gate, method)(args)
    return res, target, buffer


def check_case(case: KernelCase, prop, owner, total_axes=None, patches=()):
    """All obligations of one kernel: for every parameter assignment (symbolic + specials), decision script and axes
    placement.  Returns list[paths.Obligation]."""
    import cirq

    obls = []
    k = len(case.qid_shape)
    total = total_axes or (k + 1)
    names = list(case.params)
    # parameter assignments: all-symbolic first, then each special value of each parameter (others symbolic)
    assigns = [dict((n, Angle.sym(n)) for n in names)]
    for n in names:
        for v in case.params[n]:
            a = dict((m, Angle.sym(m)) for m in names)
            a[n] = v
            assigns.append(a)
    done = set()
    queue = [(a, []) for a in assigns]
    t_all = time.time()
    while queue:
        assign, script = queue.pop(0)
        key = (tuple(sorted((n, repr(v)) for n, v in assign.items())), tuple(script))
        if key in done:
            continue
        done.add(key)
        label = ",".join(f"{n}={'*' if isinstance(v, Angle) and not v.is_number() else (v.number() if isinstance(v, Angle) else v)}" for n, v in assign.items())
        for axes in _placements(k, total):
            t0 = time.time()
            dec = Decisions(script)
            trigpoly.CTX = dec
            name = f"{prop}/{owner}#kernel[{case.name}; {label}; decisions={''.join('E' if d else 'N' for d in script) or '-'}; axes={axes}]"
            try:
                gate = case.make_gate(**assign)
                res, target, buffer = run_kernel(gate, case.qid_shape, axes, total)
            except Rerun:
                trigpoly.CTX = None
                for sym_, val in dec.concretize:
                    a2 = dict(assign)
                    a2[sym_] = val
                    queue.append((a2, []))
                for alt in dec.alternatives:
                    queue.append((assign, alt))
                break
            except trigpoly.Undecided as e:
                trigpoly.CTX = None
                obls.append(paths.Obligation(name, "engine", "out-of-reach", 0.0, "linrow", detail=f"undecidable comparison on a symbolic parameter: {e}"))
                break
            except Exception as e:
                trigpoly.CTX = None
                obls.append(paths.Obligation(name, "engine", "error", 0.0, "linrow", detail=f"{type(e).__name__}: {e}"))
                break
            finally:
                trigpoly.CTX = None
            for alt in dec.alternatives:
                queue.append((assign, alt))
            status, detail = _judge(case, assign, dec, res, target, buffer)
            o = paths.Obligation(name, "engine", status, (time.time() - t0) * 1e3, "linrow+trigpoly", detail=detail)
            o.case = case.name
            o.concrete = dict(gate=repr(gate) if all(not isinstance(v, Angle) or v.is_number() for v in assign.values()) else None,
                              params={n: repr(v) for n, v in assign.items()}, axes=list(axes))
            obls.append(o)
        if time.time() - t_all > 120:
            obls.append(paths.Obligation(f"{prop}/{owner}#kernel[{case.name}]", "engine", "out-of-reach", 0.0, "linrow", detail="time budget"))
            break
    return obls


def _judge(case, assign, dec, res, target, buffer):
    declined = res is NotImplemented or res is None
    if declined:
        # declining is always allowed by the protocol (the caller falls back to _unitary_) PROVIDED nothing was written
        if target.writes or buffer.writes:
            return "failed", "kernel returned NotImplemented/None after writing to the target tensor or the buffer"
        if case.declines is not None and not case.declines(**assign):
            return "failed", "kernel declined parameters it is documented to handle"
        return "proved", ""
    if res is not target and res is not buffer:
        return "failed", f"kernel returned {type(res).__name__}, neither the target tensor nor the buffer"
    M = np.asarray(case.spec_matrix(**assign), dtype=object)
    ph = case.phase(**assign) if case.phase else TrigPoly.const(1)
    ph = trigpoly._lift(ph)
    for a, b in dec.assumed_equal:
        # the kernel compared a phase with a constant and took the 'equal' branch: on this path the phase IS that constant
        a_, b_ = trigpoly._lift(a), trigpoly._lift(b)
        if ph.same(a_):
            ph = b_
        elif ph.same(b_):
            ph = a_
        else:
            return "out-of-reach", f"kernel branched on an equality ({a!r} == {b!r}) that the spec cannot interpret"
    dims = case.qid_shape
    labels = list(itertools.product(*[range(d) for d in dims]))
    for i, lab in enumerate(labels):
        want = {}
        for j, lab2 in enumerate(labels):
            c = trigpoly._lift(M[i, j]) * ph
            if c.t:
                want[("in", lab2)] = c
        got = {k: v for k, v in res.rows[lab].items() if v.t}
        keys = set(want) | set(got)
        for key in sorted(keys):
            g, w = got.get(key, TrigPoly()), want.get(key, TrigPoly())
            if not g.same(w):
                return "failed", f"row {lab}: coefficient of {key[0]}{list(key[1])} is {g!r}, the documented matrix gives {w!r}"
    return "proved", ""
