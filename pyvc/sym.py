"""Symbolic values for pyvc.

Every class here is a thin proxy around a z3 term that implements Python's data model, so the same
value works (a) inside the AST interpreter (pyvc/interp.py) and (b) inside natively executed helper
code.  Truth tests on a symbolic boolean are routed to the current Path (pyvc/paths.py), which
decides them with the solver under the path condition or forks.

Semantics assumed (trusted base): Python int = mathematical integer; float treated as real
(`float-as-real`); // and % are floor division / modulo with the sign of the divisor; x << k = x*2**k,
x >> k = floor(x / 2**k) for k >= 0; x & (2**m-1) = x mod 2**m; x | 1 = x + 1 - x mod 2.
"""
from __future__ import annotations

import fractions
import itertools
import z3

from . import paths

_counter = itertools.count()


def fresh_name(base: str) -> str:
    return f"{base}!{next(_counter)}"


class Sym:
    """Base class of SMT-backed symbolic values."""

    __slots__ = ()


class OutOfReach(Exception):
    """Raised when code leaves the supported subset; never mapped to a violation."""


# --------------------------------------------------------------------------------------------
# scalars


def is_sym(x) -> bool:
    return isinstance(x, Sym)


def to_z3(x):
    """Python/Sym scalar -> (z3 term)."""
    if isinstance(x, (SInt, SBool, SReal)):
        return x.e
    if isinstance(x, bool):
        return z3.BoolVal(x)
    if isinstance(x, int):
        return z3.IntVal(x)
    if isinstance(x, fractions.Fraction):
        return z3.RealVal(x)
    if isinstance(x, float):
        return z3.RealVal(fractions.Fraction(x))
    if isinstance(x, SObj):
        return x.e
    if z3.is_expr(x):
        return x
    try:
        import numpy as np

        if isinstance(x, np.bool_):
            return z3.BoolVal(bool(x))
        if isinstance(x, np.integer):
            return z3.IntVal(int(x))
        if isinstance(x, np.floating):
            return z3.RealVal(fractions.Fraction(float(x)))
    except ImportError:  # pragma: no cover
        pass
    raise OutOfReach(f"cannot lift {type(x).__name__} to SMT")


def as_int_term(x):
    t = to_z3(x)
    if z3.is_bool(t):
        return z3.If(t, z3.IntVal(1), z3.IntVal(0))
    return t


def wrap(t):
    """z3 term -> Sym proxy (constants are folded back to Python values)."""
    t = z3.simplify(t) if False else t
    if z3.is_bool(t):
        if z3.is_true(t):
            return True
        if z3.is_false(t):
            return False
        return SBool(t)
    if z3.is_int(t):
        if z3.is_int_value(t):
            return t.as_long()
        return SInt(t)
    if z3.is_real(t):
        return SReal(t)
    raise OutOfReach(f"cannot wrap sort {t.sort()}")


def _arith(a, b, f):
    ta, tb = as_int_term(a), as_int_term(b)
    if z3.is_real(ta) and z3.is_int(tb):
        tb = z3.ToReal(tb)
    if z3.is_real(tb) and z3.is_int(ta):
        ta = z3.ToReal(ta)
    return wrap(f(ta, tb))


def _cmp(a, b, f):
    ta, tb = to_z3(a), to_z3(b)
    if z3.is_bool(ta) and not z3.is_bool(tb):
        ta = as_int_term(a)
    if z3.is_bool(tb) and not z3.is_bool(ta):
        tb = as_int_term(b)
    if z3.is_real(ta) and z3.is_int(tb):
        tb = z3.ToReal(tb)
    if z3.is_real(tb) and z3.is_int(ta):
        ta = z3.ToReal(ta)
    return wrap(f(ta, tb))


POW2 = z3.Function("pow2", z3.IntSort(), z3.IntSort())


def pow2_axioms():
    return []


def install_pow2(p):
    """pow2(k) = 1 if k <= 0 else 2*pow2(k-1), instantiated on demand like any spec function; plus pow2 >= 1."""
    k = z3.Int("k!p2")
    p.register_spec(POW2, [k], z3.If(k <= 0, z3.IntVal(1), 2 * POW2(k - 1)))
    p.register_spec(POW2POS, [k], POW2(k) >= 1)


POW2POS = z3.Function("pow2pos", z3.IntSort(), z3.BoolSort())


def py_floordiv(ta, tb):
    """Python floor division on int terms (divisor sign handled)."""
    if z3.is_int_value(tb):
        n = tb.as_long()
        if n > 0:
            return ta / tb
        if n < 0:
            return (-ta) / z3.IntVal(-n)
    return z3.If(tb > 0, ta / tb, (-ta) / (-tb))


def py_mod(ta, tb):
    if z3.is_int_value(tb) and tb.as_long() > 0:
        return ta % tb
    return ta - tb * py_floordiv(ta, tb)


class _Num(Sym):
    __slots__ = ("e",)

    def __init__(self, e):
        self.e = e

    def __repr__(self):
        return f"{type(self).__name__}({self.e})"

    __hash__ = object.__hash__

    # arithmetic -------------------------------------------------------------
    def __add__(self, o):
        if isinstance(o, (int, float, bool, _Num, fractions.Fraction)):
            return _arith(self, o, lambda a, b: a + b)
        return NotImplemented

    def __radd__(self, o):
        if isinstance(o, (int, float, bool, _Num, fractions.Fraction)):
            return _arith(o, self, lambda a, b: a + b)
        return NotImplemented

    def __sub__(self, o):
        if isinstance(o, (int, float, bool, _Num, fractions.Fraction)):
            return _arith(self, o, lambda a, b: a - b)
        return NotImplemented

    def __rsub__(self, o):
        if isinstance(o, (int, float, bool, _Num, fractions.Fraction)):
            return _arith(o, self, lambda a, b: a - b)
        return NotImplemented

    def __mul__(self, o):
        if isinstance(o, (int, float, bool, _Num, fractions.Fraction)):
            return _arith(self, o, lambda a, b: a * b)
        return NotImplemented

    def __rmul__(self, o):
        if isinstance(o, (int, float, bool, _Num, fractions.Fraction)):
            return _arith(o, self, lambda a, b: a * b)
        return NotImplemented

    def __neg__(self):
        return wrap(-as_int_term(self))

    def __pos__(self):
        return wrap(as_int_term(self))

    def __abs__(self):
        t = as_int_term(self)
        return wrap(z3.If(t >= 0, t, -t))

    def __truediv__(self, o):
        ta, tb = as_int_term(self), as_int_term(o)
        ta = z3.ToReal(ta) if z3.is_int(ta) else ta
        tb = z3.ToReal(tb) if z3.is_int(tb) else tb
        paths.current().require(tb != 0, "safe.div", exc="ZeroDivisionError")
        return wrap(ta / tb)

    def __rtruediv__(self, o):
        ta, tb = as_int_term(o), as_int_term(self)
        ta = z3.ToReal(ta) if z3.is_int(ta) else ta
        tb = z3.ToReal(tb) if z3.is_int(tb) else tb
        paths.current().require(tb != 0, "safe.div", exc="ZeroDivisionError")
        return wrap(ta / tb)

    def _intdiv(self, a, b, kind):
        ta, tb = as_int_term(a), as_int_term(b)
        if not (z3.is_int(ta) and z3.is_int(tb)):
            raise OutOfReach("floor division / modulo on reals")
        if not (z3.is_int_value(tb) and tb.as_long() != 0):
            paths.current().require(tb != 0, "safe.div", exc="ZeroDivisionError")
        return wrap(py_floordiv(ta, tb) if kind == "div" else py_mod(ta, tb))

    def __floordiv__(self, o):
        return self._intdiv(self, o, "div")

    def __rfloordiv__(self, o):
        return self._intdiv(o, self, "div")

    def __mod__(self, o):
        return self._intdiv(self, o, "mod")

    def __rmod__(self, o):
        return self._intdiv(o, self, "mod")

    def __divmod__(self, o):
        return (self._intdiv(self, o, "div"), self._intdiv(self, o, "mod"))

    def __pow__(self, o):
        if isinstance(o, int) and not isinstance(o, bool) and 0 <= o <= 8:
            r = 1
            for _ in range(o):
                r = r * self
            return r
        raise OutOfReach("symbolic power")

    def __rpow__(self, o):
        if o == 2 and isinstance(self, SInt):
            paths.current().require(self.e >= 0, "safe.pow2-nonneg")
            p = paths.current()
            p.assume(POW2POS(self.e))
            return wrap(POW2(self.e))
        raise OutOfReach("symbolic exponent")

    def __lshift__(self, o):
        return self * _pow2(o)

    def __rlshift__(self, o):
        return o * _pow2(self)

    def __rshift__(self, o):
        return self // _pow2(o)

    def __rrshift__(self, o):
        return o // _pow2(self)

    def __and__(self, o):
        return _bitop("and", self, o)

    __rand__ = __and__

    def __or__(self, o):
        return _bitop("or", self, o)

    __ror__ = __or__

    def __xor__(self, o):
        return _bitop("xor", self, o)

    __rxor__ = __xor__

    def __invert__(self):
        return -self - 1

    # comparisons ---------------------------------------------------------------
    def __eq__(self, o):
        if o is None or isinstance(o, (str, tuple, list, dict)):
            return False
        try:
            return _cmp(self, o, lambda a, b: a == b)
        except OutOfReach:
            return False

    def __ne__(self, o):
        r = self.__eq__(o)
        return (not r) if isinstance(r, bool) else r.__invert_bool__()

    def __lt__(self, o):
        return _cmp(self, o, lambda a, b: a < b)

    def __le__(self, o):
        return _cmp(self, o, lambda a, b: a <= b)

    def __gt__(self, o):
        return _cmp(self, o, lambda a, b: a > b)

    def __ge__(self, o):
        return _cmp(self, o, lambda a, b: a >= b)

    def __bool__(self):
        return paths.current().branch(self.e != 0)

    def __index__(self):
        raise OutOfReach("symbolic int used as native index")


def _pow2(k):
    if isinstance(k, bool):
        k = int(k)
    if isinstance(k, int):
        if k < 0:
            raise ValueError("negative shift count")
        return 2**k
    if isinstance(k, SInt):
        paths.current().require(k.e >= 0, "safe.shift-nonneg", exc="ValueError")
        paths.current().assume(POW2POS(k.e))
        return SInt(POW2(k.e))
    raise OutOfReach("shift by non-int")


def _is_pow2_minus1(n):
    return isinstance(n, int) and not isinstance(n, bool) and n >= 0 and (n & (n + 1)) == 0


def _bitop(kind, a, b):
    # boolean operands ----------------------------------------------------------
    ta, tb = to_z3(a), to_z3(b)
    if z3.is_bool(ta) and z3.is_bool(tb):
        return wrap({"and": z3.And, "or": z3.Or, "xor": z3.Xor}[kind](ta, tb))
    sym, other = (a, b) if isinstance(a, Sym) else (b, a)
    if isinstance(other, bool):
        other = int(other)
    other_is_bit = isinstance(other, SBool) or _is_bit_term(other)
    if isinstance(other, SBool):
        other = SInt(as_int_term(other))
    if isinstance(sym, SBool):
        sym = SInt(as_int_term(sym))
    if isinstance(other, int):
        if kind == "and" and _is_pow2_minus1(other):
            return sym % (other + 1)
        if kind == "or" and other == 1:
            return sym + 1 - sym % 2
        if kind in ("or", "xor") and other == 0:
            return sym
        if kind == "xor" and other == 1:
            return sym + 1 - 2 * (sym % 2)
        if kind == "and" and other > 0 and (other & (other - 1)) == 0:
            # single bit mask 2**m:  x & 2**m  =  2**m * ((x // 2**m) % 2)
            return other * ((sym // other) % 2)
    if kind == "xor" and other_is_bit:
        # x ^ b for a 0/1-valued b:  b ? (x ^ 1) : x
        bt, st = as_int_term(other), as_int_term(sym)
        return wrap(z3.If(bt == 1, st + 1 - 2 * (st % 2), st))
    # anything else: uninterpreted bit operation (sound abstraction: nothing is known about it except functionality)
    f = {"and": BAND, "or": BOR, "xor": BXOR}[kind]
    ta, tb = as_int_term(a), as_int_term(b)
    r = f(ta, tb)
    if paths.active():
        # true instance facts about the real operators on single bits (all that the bit-level code here relies on)
        bits = z3.And(ta >= 0, ta <= 1, tb >= 0, tb <= 1)
        val = {"and": z3.If(z3.And(ta == 1, tb == 1), 1, 0), "or": z3.If(z3.Or(ta == 1, tb == 1), 1, 0),
               "xor": z3.If(ta == tb, 0, 1)}[kind]
        paths.current().assume(z3.Implies(bits, r == val))
    return wrap(r)


BAND = z3.Function("bit_and", z3.IntSort(), z3.IntSort(), z3.IntSort())
BOR = z3.Function("bit_or", z3.IntSort(), z3.IntSort(), z3.IntSort())
BXOR = z3.Function("bit_xor", z3.IntSort(), z3.IntSort(), z3.IntSort())


def _is_bit_term(v):
    return isinstance(v, SInt) and z3.is_app(v.e) and v.e.decl().kind() == z3.Z3_OP_ITE and all(
        z3.is_int_value(c) and c.as_long() in (0, 1) for c in v.e.children()[1:])


class SInt(_Num):
    __slots__ = ()


class SReal(_Num):
    __slots__ = ()

    def __bool__(self):
        return paths.current().branch(self.e != 0)


class SBool(_Num):
    __slots__ = ()

    def __bool__(self):
        return paths.current().branch(self.e)

    def __invert_bool__(self):
        return wrap(z3.Not(self.e))

    def __eq__(self, o):
        if isinstance(o, (bool, SBool)):
            return wrap(self.e == to_z3(o))
        return _Num.__eq__(self, o)

    __hash__ = object.__hash__


def s_not(x):
    if isinstance(x, SBool):
        return wrap(z3.Not(x.e))
    return not x


def fresh_int(name="i"):
    return SInt(z3.Int(fresh_name(name)))


def fresh_bool(name="b"):
    return SBool(z3.Bool(fresh_name(name)))


def fresh_real(name="r"):
    return SReal(z3.Real(fresh_name(name)))


# --------------------------------------------------------------------------------------------
# abstract objects


_SORTS: dict[str, z3.SortRef] = {}


def sort(name: str) -> z3.SortRef:
    if name not in _SORTS:
        _SORTS[name] = z3.DeclareSort(name)
    return _SORTS[name]


class SObj(Sym):
    """Element of an uninterpreted sort. Attribute reads are routed through `attrs` (set by contracts)."""

    __slots__ = ("e", "sortname")
    ATTRS: dict = {}  # sortname -> {attr: callable(obj) -> value}

    def __init__(self, e, sortname):
        self.e = e
        self.sortname = sortname

    def __repr__(self):
        return f"SObj<{self.sortname}>({self.e})"

    def __eq__(self, o):
        if isinstance(o, SObj) and o.sortname == self.sortname:
            return wrap(self.e == o.e)
        return False

    def __ne__(self, o):
        return s_not(self.__eq__(o))

    __hash__ = object.__hash__

    def __getattr__(self, name):
        table = SObj.ATTRS.get(object.__getattribute__(self, "sortname"), {})
        if name in table:
            return table[name](self)
        raise AttributeError(name)


def fresh_obj(sortname, name=None):
    return SObj(z3.Const(fresh_name(name or sortname.lower()), sort(sortname)), sortname)


# --------------------------------------------------------------------------------------------
# element kinds: how a z3 term stored in an array is turned back into a Python-level value


class Kind:
    def __init__(self, name, zsort, wrapf, fresh):
        self.name, self.zsort, self.wrapf, self.fresh = name, zsort, wrapf, fresh

    def __repr__(self):
        return f"Kind({self.name})"


INT = Kind("int", z3.IntSort(), wrap, fresh_int)
BOOL = Kind("bool", z3.BoolSort(), wrap, fresh_bool)
REAL = Kind("real", z3.RealSort(), wrap, fresh_real)


def obj_kind(sortname):
    return Kind(sortname, sort(sortname), lambda t: SObj(t, sortname), lambda n="o": fresh_obj(sortname, n))


def kind_of_value(v):
    if isinstance(v, (bool, SBool)):
        return BOOL
    if isinstance(v, (int, SInt)):
        return INT
    if isinstance(v, (float, SReal)):
        return REAL
    if isinstance(v, SObj):
        return obj_kind(v.sortname)
    raise OutOfReach(f"no element kind for {type(v).__name__}")


# --------------------------------------------------------------------------------------------
# sequences with symbolic length


def select(a, i):
    """Select with beta-reduction when the array is a lambda term."""
    if z3.is_quantifier(a) and a.is_lambda() and a.num_vars() == 1:
        return z3.substitute_vars(a.body(), i)
    return z3.Select(a, i)


class SSeq(Sym):
    """Immutable sequence value: length term + z3 array Int -> elem.  `is_list` only affects
    Python-level type tests (tuple vs list)."""

    __slots__ = ("n", "a", "kind", "pytype", "elem_pred")

    def __init__(self, n, a, kind, pytype=tuple, elem_pred=None):
        self.n = n if z3.is_expr(n) else z3.IntVal(n)
        self.a = a
        self.kind = kind
        self.pytype = pytype
        # optional element invariant, instantiated on demand at every read (quantifier-free alternative to a forall)
        self.elem_pred = elem_pred

    def __repr__(self):
        return f"SSeq[{self.kind.name}](len={self.n})"

    __hash__ = object.__hash__

    @staticmethod
    def fresh(kind, name="s", pytype=tuple):
        n = z3.Int(fresh_name(name + ".len"))
        paths.current().assume(n >= 0)
        return SSeq(n, z3.Const(fresh_name(name), z3.ArraySort(z3.IntSort(), kind.zsort)), kind, pytype)

    @staticmethod
    def from_values(vals, kind=None, pytype=tuple):
        vals = list(vals)
        if kind is None:
            kind = kind_of_value(vals[0]) if vals else INT
        a = z3.K(z3.IntSort(), _default(kind))
        for i, v in enumerate(vals):
            a = z3.Store(a, i, _elem_term(v, kind))
        return SSeq(z3.IntVal(len(vals)), a, kind, pytype)

    def __len__(self):
        raise OutOfReach("native len() of symbolic-length sequence")

    def length(self):
        return wrap(self.n)

    def at(self, i):
        """Element at a *normalised* (non-negative, in range) index term, no bounds obligation."""
        t = select(self.a, as_int_term(i))
        if self.elem_pred is not None and paths.active() and not paths._has_var(t):
            paths.current().assume(self.elem_pred(t))
        return self.kind.wrapf(t)

    def __getitem__(self, i):
        if isinstance(i, slice):
            return self._slice(i)
        ti = as_int_term(i)
        p = paths.current()
        if (z3.is_int_value(ti) and ti.as_long() >= 0) or p.valid(ti >= 0, quick=True):
            p.require(ti < self.n, "safe.index", exc="IndexError")
            return self.at(ti)
        p.require(z3.And(ti >= -self.n, ti < self.n), "safe.index", exc="IndexError")
        return self.at(z3.If(ti >= 0, ti, ti + self.n))

    def _slice(self, s):
        if s.step not in (None, 1):
            if s.step == -1 and s.start is None and s.stop is None:
                return self.reversed()
            raise OutOfReach("slice step")
        n = self.n
        lo = z3.IntVal(0) if s.start is None else _clip(as_int_term(s.start), n)
        hi = n if s.stop is None else _clip(as_int_term(s.stop), n)
        ln = z3.If(hi >= lo, hi - lo, 0)
        j = z3.Int(fresh_name("j"))
        a = z3.Lambda([j], z3.Select(self.a, j + lo))
        return SSeq(z3.simplify(ln), a, self.kind, self.pytype)

    def reversed(self):
        j = z3.Int(fresh_name("j"))
        return SSeq(self.n, z3.Lambda([j], z3.Select(self.a, self.n - 1 - j)), self.kind, self.pytype)

    def append(self, v):
        return SSeq(self.n + 1, z3.Store(self.a, self.n, _elem_term(v, self.kind)), self.kind, self.pytype)

    def set(self, i, v):
        ti = as_int_term(i)
        paths.current().require(z3.And(ti >= -self.n, ti < self.n), "safe.index", exc="IndexError")
        ti = z3.If(ti >= 0, ti, ti + self.n)
        return SSeq(self.n, z3.Store(self.a, ti, _elem_term(v, self.kind)), self.kind, self.pytype)

    def concat(self, o):
        if not isinstance(o, SSeq):
            o = SSeq.from_values(o, self.kind)
        j = z3.Int(fresh_name("j"))
        a = z3.Lambda([j], z3.If(j < self.n, z3.Select(self.a, j), z3.Select(o.a, j - self.n)))
        return SSeq(self.n + o.n, a, self.kind, self.pytype)

    def __add__(self, o):
        return self.concat(o)

    def __radd__(self, o):
        return SSeq.from_values(o, self.kind, self.pytype).concat(self)

    def eq_term(self, o):
        if not isinstance(o, SSeq):
            o = SSeq.from_values(o, self.kind)
        j = z3.Int(fresh_name("j"))
        return z3.And(
            self.n == o.n,
            z3.ForAll([j], z3.Implies(z3.And(0 <= j, j < self.n), z3.Select(self.a, j) == z3.Select(o.a, j))),
        )

    def __eq__(self, o):
        if isinstance(o, (SSeq, tuple, list)):
            return wrap(self.eq_term(o))
        return False

    def __ne__(self, o):
        return s_not(self.__eq__(o))

    def __iter__(self):
        raise OutOfReach("native iteration over symbolic-length sequence")

    def __bool__(self):
        return paths.current().branch(self.n != 0)

    def as_pytype(self, t):
        return SSeq(self.n, self.a, self.kind, t, self.elem_pred)


def _clip(t, n):
    t = z3.If(t < 0, t + n, t)
    return z3.If(t < 0, 0, z3.If(t > n, n, t))


def _default(kind):
    if kind.zsort == z3.IntSort():
        return z3.IntVal(0)
    if kind.zsort == z3.BoolSort():
        return z3.BoolVal(False)
    if kind.zsort == z3.RealSort():
        return z3.RealVal(0)
    return z3.Const(f"default!{kind.name}", kind.zsort)


def _elem_term(v, kind):
    t = to_z3(v)
    if kind.zsort == z3.IntSort() and z3.is_bool(t):
        t = as_int_term(v)
    if kind.zsort == z3.RealSort() and z3.is_int(t):
        t = z3.ToReal(t)
    if t.sort() != kind.zsort:
        raise OutOfReach(f"element of sort {t.sort()} stored in sequence of {kind.name}")
    return t


class SList(Sym):
    """Mutable list object (identity = this box) whose content is an SSeq value."""

    __slots__ = ("v",)

    def __init__(self, v: SSeq):
        self.v = v.as_pytype(list)

    def __repr__(self):
        return f"SList({self.v})"

    __hash__ = object.__hash__

    def length(self):
        return self.v.length()

    def __getitem__(self, i):
        r = self.v[i]
        return SList(r) if isinstance(r, SSeq) else r

    def __setitem__(self, i, x):
        if isinstance(i, slice):
            raise OutOfReach("slice assignment on symbolic list")
        self.v = self.v.set(i, x)

    def append(self, x):
        self.v = self.v.append(x)

    def reverse(self):
        self.v = self.v.reversed()

    def pop(self, i=-1):
        ti = as_int_term(i)
        p = paths.current()
        n = self.v.n
        p.require(z3.And(ti >= -n, ti < n), "safe.index", exc="IndexError")
        ti = z3.If(ti >= 0, ti, ti + n)
        x = self.v.at(ti)
        j = z3.Int(fresh_name("j"))
        a = z3.Lambda([j], z3.If(j < ti, select(self.v.a, j), select(self.v.a, j + 1)))
        self.v = SSeq(z3.simplify(n - 1), a, self.v.kind, list)
        return x

    def copy(self):
        return SList(self.v)

    def extend(self, o):
        self.v = self.v.concat(o.v if isinstance(o, SList) else o)

    def __add__(self, o):
        return SList(self.v.concat(o.v if isinstance(o, SList) else o))

    def __radd__(self, o):
        return SList(SSeq.from_values(o, self.v.kind).concat(self.v))

    def __eq__(self, o):
        if isinstance(o, SList):
            o = o.v
        if isinstance(o, SSeq) and o.pytype is not list:
            return False
        if isinstance(o, tuple):
            return False
        return self.v.__eq__(o)

    def __ne__(self, o):
        return s_not(self.__eq__(o))

    def __bool__(self):
        return bool(self.v)

    def __iter__(self):
        raise OutOfReach("native iteration over symbolic list")

    def __len__(self):
        raise OutOfReach("native len() of symbolic list")


def seq_of(x):
    """View any sequence-like as SSeq (or None)."""
    if isinstance(x, SSeq):
        return x
    if isinstance(x, SList):
        return x.v
    return None


# --------------------------------------------------------------------------------------------
# finite sets / maps over an element kind, as z3 arrays


class SSet(Sym):
    """Set value over `kind` (immutable; boxes below give mutation)."""

    __slots__ = ("dom", "kind")

    def __init__(self, dom, kind):
        self.dom, self.kind = dom, kind

    @staticmethod
    def fresh(kind, name="S"):
        return SSet(z3.Const(fresh_name(name), z3.ArraySort(kind.zsort, z3.BoolSort())), kind)

    @staticmethod
    def empty(kind):
        return SSet(z3.K(kind.zsort, z3.BoolVal(False)), kind)

    def __repr__(self):
        return f"SSet[{self.kind.name}]"

    __hash__ = object.__hash__

    def contains(self, x):
        return wrap(select(self.dom, _elem_term(x, self.kind)))

    def __contains__(self, x):
        return bool(self.contains(x))

    def add(self, x):
        return SSet(z3.Store(self.dom, _elem_term(x, self.kind), z3.BoolVal(True)), self.kind)

    def _bin(self, o, f):
        x = z3.Const(fresh_name("x"), self.kind.zsort)
        return SSet(z3.Lambda([x], f(z3.Select(self.dom, x), z3.Select(o.dom, x))), self.kind)

    def __or__(self, o):
        return self._bin(o, z3.Or)

    def __and__(self, o):
        return self._bin(o, z3.And)

    def __sub__(self, o):
        return self._bin(o, lambda a, b: z3.And(a, z3.Not(b)))

    def isdisjoint(self, o):
        x = z3.Const(fresh_name("x"), self.kind.zsort)
        a, b = sorted((self.dom, o.dom), key=lambda t: t.sexpr())  # canonical order: A∩B and B∩A give the same term
        return wrap(z3.Not(z3.Exists([x], z3.And(select(a, x), select(b, x)))))

    def nonempty_term(self):
        x = z3.Const(fresh_name("x"), self.kind.zsort)
        return z3.Exists([x], z3.Select(self.dom, x))

    def __bool__(self):
        return paths.current().branch(self.nonempty_term())

    def __eq__(self, o):
        if isinstance(o, SSet):
            return wrap(self.dom == o.dom)
        return False

    def __iter__(self):
        raise OutOfReach("native iteration over symbolic set")


class SMap(Sym):
    """Mutable dict object: dom: K -> Bool, val: K -> V (value kinds scalar)."""

    __slots__ = ("dom", "val", "kkind", "vkind")

    def __init__(self, dom, val, kkind, vkind):
        self.dom, self.val, self.kkind, self.vkind = dom, val, kkind, vkind

    @staticmethod
    def fresh(kkind, vkind, name="M"):
        return SMap(
            z3.Const(fresh_name(name + ".dom"), z3.ArraySort(kkind.zsort, z3.BoolSort())),
            z3.Const(fresh_name(name + ".val"), z3.ArraySort(kkind.zsort, vkind.zsort)),
            kkind,
            vkind,
        )

    def __repr__(self):
        return f"SMap[{self.kkind.name}->{self.vkind.name}]"

    __hash__ = object.__hash__

    def snapshot(self):
        return SMap(self.dom, self.val, self.kkind, self.vkind)

    def has(self, k):
        return wrap(select(self.dom, _elem_term(k, self.kkind)))

    def __contains__(self, k):
        return bool(self.has(k))

    def get(self, k, default=None):
        kt = _elem_term(k, self.kkind)
        if default is None:
            if paths.current().branch(select(self.dom, kt)):
                return self.vkind.wrapf(select(self.val, kt))
            return None
        return self.vkind.wrapf(z3.If(select(self.dom, kt), select(self.val, kt), _elem_term(default, self.vkind)))

    def __getitem__(self, k):
        kt = _elem_term(k, self.kkind)
        paths.current().require(z3.Select(self.dom, kt), "safe.key", exc="KeyError")
        return self.vkind.wrapf(z3.Select(self.val, kt))

    def __setitem__(self, k, v):
        kt = _elem_term(k, self.kkind)
        self.dom = z3.Store(self.dom, kt, z3.BoolVal(True))
        self.val = z3.Store(self.val, kt, _elem_term(v, self.vkind))

    def __delitem__(self, k):
        kt = _elem_term(k, self.kkind)
        paths.current().require(z3.Select(self.dom, kt), "safe.key", exc="KeyError")
        self.dom = z3.Store(self.dom, kt, z3.BoolVal(False))

    def keys(self):
        return SSet(self.dom, self.kkind)

    def values(self):
        x = z3.Const(fresh_name("k"), self.kkind.zsort)
        return SGen([(x, z3.Select(self.dom, x), self.vkind.wrapf(z3.Select(self.val, x)))])

    def update_where(self, member_of, value_of):
        """M[x] = value_of(x) for every x with member_of(x) (a loop over a symbolic set, as one array update)."""
        x = z3.Const(fresh_name("x"), self.kkind.zsort)
        m = member_of(x)
        v = value_of(x)  # evaluated against the pre-loop map
        new_dom = z3.Lambda([x], z3.Or(m, select(self.dom, x)))
        new_val = z3.Lambda([x], z3.If(m, v, select(self.val, x)))
        self.dom, self.val = new_dom, new_val

    def copy(self):
        return self.snapshot()

    def __iter__(self):
        raise OutOfReach("native iteration over symbolic dict")

    def __eq__(self, o):
        if isinstance(o, SMap):
            x = z3.Const(fresh_name("x"), self.kkind.zsort)
            return wrap(
                z3.And(
                    self.dom == o.dom,
                    z3.ForAll([x], z3.Implies(z3.Select(self.dom, x), z3.Select(self.val, x) == z3.Select(o.val, x))),
                )
            )
        return False


class SGen(Sym):
    """A bag of values drawn from symbolic sets plus finitely many scalars:
       { v(x) | x : bound const, member(x) } for each part,  ∪  scalars.
    Produced by comprehensions over symbolic sets / dict.values(); consumed by max/min/any/all."""

    __slots__ = ("parts", "scalars")

    def __init__(self, parts, scalars=()):
        self.parts = list(parts)
        self.scalars = list(scalars)

    def __iter__(self):
        raise OutOfReach("native iteration over symbolic bag")

    def chain(self, other):
        return SGen(self.parts + other.parts, self.scalars + other.scalars)


def contains_sym(x, depth=0) -> bool:
    if isinstance(x, Sym):
        return True
    if depth > 4:
        return False
    if isinstance(x, (tuple, list, set, frozenset)):
        return any(contains_sym(y, depth + 1) for y in x)
    if isinstance(x, dict):
        return any(contains_sym(k, depth + 1) or contains_sym(v, depth + 1) for k, v in x.items())
    return False
