"""AST interpreter over symbolic values: forward symbolic execution of real Python source.

* names resolve in the *real* module's globals (the module is imported from /repo's working tree);
* values are native Python objects or pyvc.sym proxies; native operators are used whenever possible;
* symbolic truth tests fork (paths.Path.branch);
* loops over concrete iterables are unrolled; loops over symbolic-length iterables are cut by the
  invariant the contract supplies for that loop ordinal (inv-init / inv-step obligations);
* calls: contract (modular) > model (builtins / library) > inline (listed helpers, nested defs,
  lambdas) > native (no symbolic argument) > OutOfReach.
"""
from __future__ import annotations

import ast
import builtins
import operator
import types

import z3

from . import paths, sym
from .sym import OutOfReach, SBool, SInt, SList, SMap, SObj, SReal, SSeq, SSet, SGen, Sym, wrap


class SpecError(Exception):
    """A contract expression is ill-formed / ill-defined (checker fault, exit 3)."""


class _Return(Exception):
    def __init__(self, v):
        self.v = v


class _Break(Exception):
    pass


class _Continue(Exception):
    pass


class Env:
    __slots__ = ("vars", "parent", "globals", "nonlocals", "globals_decl")

    def __init__(self, vars=None, parent=None, globals_=None):
        self.vars = vars if vars is not None else {}
        self.parent = parent
        self.globals = globals_ if globals_ is not None else (parent.globals if parent else {})
        self.nonlocals = set()
        self.globals_decl = set()

    def lookup(self, name):
        e = self
        while e is not None:
            if name in e.vars:
                return e.vars[name]
            e = e.parent
        if name in self.globals:
            return self.globals[name]
        if hasattr(builtins, name):
            return getattr(builtins, name)
        raise NameError(name)

    def assign(self, name, v):
        if name in self.nonlocals:
            e = self.parent
            while e is not None:
                if name in e.vars:
                    e.vars[name] = v
                    return
                e = e.parent
            raise NameError(name)
        self.vars[name] = v

    def snapshot_names(self):
        return dict(self.vars)


class Closure:
    """A nested def / lambda evaluated by the interpreter; callable natively as well."""

    def __init__(self, interp, node, env, name="<lambda>"):
        self.interp, self.node, self.env, self.__name__ = interp, node, env, name

    def __call__(self, *args, **kwargs):
        return self.interp.call_ast_function(self.node, self.env, args, kwargs, name=self.__name__)


class SRange(Sym):
    """range() with symbolic bounds; step is a non-zero Python int."""

    __slots__ = ("start", "stop", "step")

    def __init__(self, start, stop, step=1):
        if not isinstance(step, int) or step == 0:
            raise OutOfReach("range with symbolic or zero step")
        self.start, self.stop, self.step = start, stop, step

    def n_term(self):
        a, b = sym.as_int_term(self.start), sym.as_int_term(self.stop)
        if self.step > 0:
            d = b - a
            q = d if self.step == 1 else (d + (self.step - 1)) / self.step
        else:
            d = a - b
            q = d if self.step == -1 else (d + (-self.step - 1)) / (-self.step)
        if paths.active() and paths.current().valid(d >= 0, quick=True):
            return z3.simplify(q)
        return z3.If(d > 0, q, 0)

    def length(self):
        return wrap(z3.simplify(self.n_term()))

    def at(self, k):
        return wrap(sym.as_int_term(self.start) + sym.as_int_term(k) * self.step)

    def __getitem__(self, i):
        if isinstance(i, slice):
            if i.start is None and i.stop is None and i.step == -1:
                n = self.n_term()
                last = sym.as_int_term(self.start) + (n - 1) * self.step
                return SRange(wrap(z3.simplify(last)), wrap(z3.simplify(sym.as_int_term(self.start) - self.step)), -self.step)
            raise OutOfReach("range slice")
        n = self.n_term()
        ti = sym.as_int_term(i)
        paths.current().require(z3.And(ti >= -n, ti < n), "safe.index")
        ti = z3.If(ti >= 0, ti, ti + n)
        return self.at(ti)

    def __iter__(self):
        raise OutOfReach("native iteration over symbolic range")


class SIter(Sym):
    """Symbolic-length iteration source: n (term) and at(k) -> item."""

    __slots__ = ("n", "getter")

    def __init__(self, n, getter):
        self.n, self.getter = n, getter

    def __iter__(self):
        raise OutOfReach("native iteration over symbolic iterable")


def sym_iter(v):
    """Return SIter for symbolic-length iterables, or None when `v` is natively iterable."""
    if isinstance(v, SIter):
        return v
    if isinstance(v, SSeq):
        return SIter(v.n, v.at)
    if isinstance(v, SList):
        s = v.v
        return SIter(s.n, s.at)
    if isinstance(v, SRange):
        return SIter(v.n_term(), v.at)
    return None


class LazyGen:
    """A generator expression that has not been consumed yet."""

    def __init__(self, interp, node, env, first=None):
        self.interp, self.node, self.env, self.first = interp, node, env, first

    def __iter__(self):
        if self.first is not None:
            return self.interp._iterate_from(self.node, self.env, self.first)
        return self.interp.iterate_comprehension(self.node, self.env)


_BINOPS = {
    ast.Add: operator.add, ast.Sub: operator.sub, ast.Mult: operator.mul, ast.Div: operator.truediv,
    ast.FloorDiv: operator.floordiv, ast.Mod: operator.mod, ast.Pow: operator.pow, ast.LShift: operator.lshift,
    ast.RShift: operator.rshift, ast.BitOr: operator.or_, ast.BitAnd: operator.and_, ast.BitXor: operator.xor,
    ast.MatMult: operator.matmul,
}
_IBINOPS = {
    ast.Add: operator.iadd, ast.Sub: operator.isub, ast.Mult: operator.imul, ast.Div: operator.itruediv,
    ast.FloorDiv: operator.ifloordiv, ast.Mod: operator.imod, ast.Pow: operator.ipow, ast.LShift: operator.ilshift,
    ast.RShift: operator.irshift, ast.BitOr: operator.ior, ast.BitAnd: operator.iand, ast.BitXor: operator.ixor,
    ast.MatMult: operator.imatmul,
}
_CMPOPS = {
    ast.Eq: operator.eq, ast.NotEq: operator.ne, ast.Lt: operator.lt, ast.LtE: operator.le, ast.Gt: operator.gt,
    ast.GtE: operator.ge,
}


class Interp:
    def __init__(self, registry=None, models=None, inline=None, loop_specs=None, hooks=None):
        self.registry = registry or {}  # python function object id / qualname -> contract applier
        self.models = models or {}
        self.inline = inline or (lambda fn: None)  # fn object -> (ast.FunctionDef, globals) | None
        self.loop_specs = loop_specs or {}  # ordinal -> LoopSpec (for the function under contract)
        self.loop_counter = 0
        self.top_fn_node = None
        self.spec_globals = {}
        self.local_models = {}
        self.hooks = hooks or {}
        self.ghost_env = {}
        self.trace = []
        self.unexpected = []

    # pure: >0 while evaluating contract expressions (build ite / and / or terms instead of forking)
    @property
    def pure(self):
        return paths.current().pure

    @pure.setter
    def pure(self, v):
        paths.current().pure = v

    @property
    def scope_depth(self):
        return paths.current().scope_depth

    @scope_depth.setter
    def scope_depth(self, v):
        paths.current().scope_depth = v

    # ------------------------------------------------------------------------------------------
    # truth

    def truth_term(self, v):
        """Truthiness of a value as python bool or z3 Bool term (no forking)."""
        if isinstance(v, bool):
            return v
        if isinstance(v, SBool):
            return v.e
        if isinstance(v, (SInt, SReal)):
            return v.e != 0
        if isinstance(v, (SSeq,)):
            return v.n != 0
        if isinstance(v, SList):
            return v.v.n != 0
        if isinstance(v, SSet):
            return v.nonempty_term()
        if isinstance(v, SRange):
            return v.n_term() != 0
        if isinstance(v, SObj):
            return True
        if isinstance(v, Sym):
            raise OutOfReach(f"truth of {type(v).__name__}")
        return bool(v)

    def truth(self, v) -> bool:
        t = self.truth_term(v)
        if isinstance(t, bool):
            return t
        return self.branch(t)

    def branch(self, t) -> bool:
        return paths.current().branch(t)

    class _Scope:
        def __init__(self, interp, assumption):
            self.i, self.a = interp, assumption

        def __enter__(self):
            p = paths.current()
            p.solver.push()
            if not isinstance(self.a, bool):
                p.solver.add(self.a)
            elif not self.a:
                p.solver.add(z3.BoolVal(False))
            self.i.scope_depth += 1

        def __exit__(self, *exc):
            self.i.scope_depth -= 1
            paths.current().solver.pop()
            return False

    def scope(self, assumption):
        return Interp._Scope(self, assumption)

    # ------------------------------------------------------------------------------------------
    # expressions

    def eval(self, node, env):
        m = getattr(self, "e_" + type(node).__name__, None)
        if m is None:
            raise OutOfReach(f"unsupported expression {type(node).__name__} at line {getattr(node, 'lineno', '?')}")
        return m(node, env)

    def e_Constant(self, node, env):
        return node.value

    def e_Name(self, node, env):
        return env.lookup(node.id)

    def e_NamedExpr(self, node, env):
        v = self.eval(node.value, env)
        env.assign(node.target.id, v)
        return v

    def e_JoinedStr(self, node, env):
        parts = []
        for v in node.values:
            if isinstance(v, ast.Constant):
                parts.append(str(v.value))
            else:
                val = self.eval(v.value, env)
                if sym.contains_sym(val):
                    parts.append("<sym>")
                else:
                    parts.append(format(val, self.eval(v.format_spec, env) if v.format_spec else "") if v.conversion == -1
                                 else (repr(val) if v.conversion == 114 else str(val)))
        return "".join(parts)

    def e_Tuple(self, node, env):
        return tuple(self._elts(node.elts, env))

    def e_List(self, node, env):
        items = self._elts(node.elts, env)
        if any(isinstance(x, SGen) for x in items):
            g = SGen([], [])
            for x in items:
                g = g.chain(x) if isinstance(x, SGen) else SGen(g.parts, g.scalars + [x])
            return g
        return list(items)

    def e_Set(self, node, env):
        return set(self._elts(node.elts, env))

    def _elts(self, elts, env):
        out = []
        for e in elts:
            if isinstance(e, ast.Starred):
                v = self.eval(e.value, env)
                if isinstance(v, SGen):
                    out.append(v)  # a symbolic bag spliced into a display stays one (flagged) item
                    continue
                if sym_iter(v) is not None:
                    raise OutOfReach("star-unpacking of symbolic-length iterable")
                out.extend(v)
            else:
                out.append(self.eval(e, env))
        return out

    def e_Dict(self, node, env):
        d = {}
        for k, v in zip(node.keys, node.values):
            if k is None:
                d.update(self.eval(v, env))
            else:
                d[self.eval(k, env)] = self.eval(v, env)
        return d

    def e_BinOp(self, node, env):
        a = self.eval(node.left, env)
        b = self.eval(node.right, env)
        return self.binop(type(node.op), a, b)

    def binop(self, op, a, b):
        if op is ast.Mult:
            # sequence repetition with symbolic count
            for s, c in ((a, b), (b, a)):
                if isinstance(c, SInt) and isinstance(s, (tuple, list)) and len(s) == 1:
                    k = sym.kind_of_value(s[0])
                    n = z3.If(c.e > 0, c.e, 0)
                    r = SSeq(z3.simplify(n), z3.K(z3.IntSort(), sym._elem_term(s[0], k)), k, type(s))
                    return SList(r) if isinstance(s, list) else r
        if op is ast.Add:
            if isinstance(a, list) and isinstance(b, SList):
                return b.__radd__(a)
            if isinstance(a, tuple) and isinstance(b, SSeq):
                return b.__radd__(a)
        return _BINOPS[op](a, b)

    def e_UnaryOp(self, node, env):
        v = self.eval(node.operand, env)
        if isinstance(node.op, ast.Not):
            if self.pure:
                t = self.truth_term(v)
                return (not t) if isinstance(t, bool) else wrap(z3.Not(t))
            return not self.truth(v)
        if isinstance(node.op, ast.USub):
            return -v
        if isinstance(node.op, ast.UAdd):
            return +v
        if isinstance(node.op, ast.Invert):
            if isinstance(v, SBool):
                return wrap(z3.Not(v.e))
            return ~v
        raise OutOfReach("unary op")

    def e_BoolOp(self, node, env):
        is_and = isinstance(node.op, ast.And)
        if self.pure:
            terms = []
            ctx = []
            result_terms = []
            for sub in node.values:
                if ctx:
                    with self.scope(z3.And(*ctx) if len(ctx) > 1 else ctx[0]):
                        v = self.eval(sub, env)
                else:
                    v = self.eval(sub, env)
                t = self.truth_term(v)
                if isinstance(t, bool):
                    if t == (not is_and):  # short-circuit value
                        result_terms.append(z3.BoolVal(t))
                        break
                    continue
                result_terms.append(t)
                ctx.append(t if is_and else z3.Not(t))
            if not result_terms:
                return is_and
            r = z3.And(*result_terms) if is_and else z3.Or(*result_terms)
            return wrap(z3.simplify(r))
        v = None
        for sub in node.values:
            v = self.eval(sub, env)
            t = self.truth(v)
            if t != is_and:
                return v
        return v

    def e_IfExp(self, node, env):
        c = self.eval(node.test, env)
        t = self.truth_term(c)
        if isinstance(t, bool):
            return self.eval(node.body if t else node.orelse, env)
        if self.pure or self.scope_depth:
            p = paths.current()
            if not p.quantified:
                if p.valid(t):
                    return self.eval(node.body, env)
                if p.valid(z3.Not(t)):
                    return self.eval(node.orelse, env)
            with self.scope(t):
                a = self.eval(node.body, env)
            with self.scope(z3.Not(t)):
                b = self.eval(node.orelse, env)
            try:
                return self.ite(t, a, b)
            except OutOfReach:
                if p.valid(t):
                    return a
                if p.valid(z3.Not(t)):
                    return b
                raise
        return self.eval(node.body if self.branch(t) else node.orelse, env)

    def ite(self, t, a, b):
        if a is b:
            return a
        if isinstance(a, (tuple, list)) and isinstance(b, (tuple, list)) and len(a) == len(b) and type(a) is type(b):
            return type(a)(self.ite(t, x, y) for x, y in zip(a, b))
        if isinstance(a, (SSeq, SList)) or isinstance(b, (SSeq, SList)):
            raise OutOfReach("ite over symbolic sequences")
        if a is None or b is None:
            raise OutOfReach("ite with None")
        ta, tb = sym.to_z3(a), sym.to_z3(b)
        if z3.is_bool(ta) != z3.is_bool(tb):
            ta, tb = sym.as_int_term(a), sym.as_int_term(b)
        if z3.is_real(ta) and z3.is_int(tb):
            tb = z3.ToReal(tb)
        if z3.is_real(tb) and z3.is_int(ta):
            ta = z3.ToReal(ta)
        r = z3.If(t, ta, tb)
        if isinstance(a, SObj):
            return SObj(r, a.sortname)
        return wrap(r)

    def e_Compare(self, node, env):
        left = self.eval(node.left, env)
        result = None
        terms = []
        for op, rn in zip(node.ops, node.comparators):
            if terms and self.pure:
                with self.scope(z3.And(*[x for x in terms if not isinstance(x, bool)] or [z3.BoolVal(True)])):
                    right = self.eval(rn, env)
            else:
                right = self.eval(rn, env)
            r = self.compare(type(op), left, right)
            if len(node.ops) == 1:
                return r
            if self.pure:
                t = self.truth_term(r)
                if t is False:
                    return False
                terms.append(t)
            else:
                if not self.truth(r):
                    return r
                result = r
            left = right
        if self.pure:
            ts = [t for t in terms if not isinstance(t, bool)]
            return wrap(z3.And(*ts)) if ts else True
        return result

    def compare(self, op, a, b):
        if op in _CMPOPS:
            if isinstance(b, Sym) and not isinstance(a, Sym) and op in (ast.Eq, ast.NotEq) and isinstance(b, (SSeq, SList, SMap, SSet)):
                r = b.__eq__(a)
                return r if op is ast.Eq else sym.s_not(r)
            if isinstance(a, (tuple, list)) and isinstance(b, type(a)) and op in (ast.Eq, ast.NotEq) and (
                sym.contains_sym(a) or sym.contains_sym(b)
            ):
                r = self.struct_eq(a, b)
                return r if op is ast.Eq else sym.s_not(r)
            return _CMPOPS[op](a, b)
        if op is ast.Is:
            return self.is_(a, b)
        if op is ast.IsNot:
            return sym.s_not(self.is_(a, b))
        if op is ast.In:
            return self.contains(b, a)
        if op is ast.NotIn:
            return sym.s_not(self.contains(b, a))
        raise OutOfReach("compare op")

    def struct_eq(self, a, b):
        if len(a) != len(b):
            return False
        ts = []
        for x, y in zip(a, b):
            r = self.compare(ast.Eq, x, y)
            t = self.truth_term(r)
            if t is False:
                return False
            if t is not True:
                ts.append(t)
        return wrap(z3.And(*ts)) if ts else True

    def is_(self, a, b):
        if isinstance(a, SObj) and isinstance(b, SObj):
            return a == b
        if (a is None or b is None) and isinstance(a if b is None else b, Sym):
            return False
        if isinstance(a, (SInt, SBool)) or isinstance(b, (SInt, SBool)):
            if isinstance(a, (bool, SBool)) and isinstance(b, (bool, SBool)):
                return a == b
            raise OutOfReach("`is` on symbolic numbers")
        return a is b

    def contains(self, container, x):
        if isinstance(container, SSet):
            return container.contains(x)
        if isinstance(container, SMap):
            return container.has(x)
        s = sym.seq_of(container)
        if s is not None:
            j = z3.Int(sym.fresh_name("j"))
            return wrap(z3.Exists([j], z3.And(0 <= j, j < s.n, z3.Select(s.a, j) == sym._elem_term(x, s.kind))))
        if isinstance(container, SRange):
            if container.step != 1:
                raise OutOfReach("`in` on stepped symbolic range")
            return (container.start <= x) & (x < container.stop) if self.pure else (container.start <= x and x < container.stop)
        if isinstance(container, (tuple, list, set, frozenset)) and (isinstance(x, Sym) or sym.contains_sym(container)):
            ts = []
            for y in container:
                t = self.truth_term(self.compare(ast.Eq, x, y))
                if t is True:
                    return True
                if t is not False:
                    ts.append(t)
            return wrap(z3.Or(*ts)) if ts else False
        if isinstance(container, dict) and isinstance(x, Sym):
            return self.contains(tuple(container.keys()), x)
        return x in container

    def e_Attribute(self, node, env):
        v = self.eval(node.value, env)
        return self.getattr(v, node.attr)

    def getattr(self, v, name):
        h = self.hooks.get("getattr")
        if h is not None:
            r = h(self, v, name)
            if r is not NotImplemented:
                return r
        if isinstance(v, SRec):
            return v.getattr(self, name)
        return getattr(v, name)

    def e_Subscript(self, node, env):
        v = self.eval(node.value, env)
        idx = self.eval_index(node.slice, env)
        return self.getitem(v, idx)

    def eval_index(self, node, env):
        if isinstance(node, ast.Slice):
            return slice(
                self.eval(node.lower, env) if node.lower else None,
                self.eval(node.upper, env) if node.upper else None,
                self.eval(node.step, env) if node.step else None,
            )
        if isinstance(node, ast.Tuple):
            return tuple(self.eval_index(e, env) for e in node.elts)
        return self.eval(node, env)

    def getitem(self, v, idx):
        if isinstance(v, (tuple, list)) and isinstance(idx, (SInt, SBool)):
            n = len(v)
            ti = sym.as_int_term(idx)
            paths.current().require(z3.And(ti >= -n, ti < n), "safe.index")
            if n == 0:
                raise IndexError("symbolic index into empty sequence")
            ti = z3.If(ti >= 0, ti, ti + n)
            r = v[n - 1]
            for i in range(n - 2, -1, -1):
                r = self.ite(ti == i, v[i], r)
            return r
        if isinstance(v, (tuple, list)) and isinstance(idx, slice) and any(isinstance(x, Sym) for x in (idx.start, idx.stop, idx.step)):
            kind = sym.kind_of_value(v[0]) if v else sym.INT
            s = SSeq.from_values(v, kind, type(v))[idx]
            return SList(s) if isinstance(v, list) else s
        if isinstance(v, dict) and isinstance(idx, Sym) and not isinstance(idx, SObj):
            for k in v:
                if self.truth(self.compare(ast.Eq, idx, k)):
                    return v[k]
            raise KeyError("symbolic key")
        return v[idx]

    def e_Slice(self, node, env):
        return self.eval_index(node, env)

    def e_Lambda(self, node, env):
        return Closure(self, node, env)

    def e_Starred(self, node, env):
        raise OutOfReach("starred expression")

    # -- comprehensions ---------------------------------------------------------------------------
    def e_GeneratorExp(self, node, env):
        first = self.eval(node.generators[0].iter, env)
        if isinstance(first, (SSet, SMap)):
            return self.symbolic_set_gen(node, env, first)
        if isinstance(first, SGen):
            return self.map_bag(node, env, first)
        return LazyGen(self, node, env, first)

    def map_bag(self, node, env, bag):
        """(f(x) for x in bag if p(x)) over a symbolic bag: same binders, mapped values."""
        if len(node.generators) != 1:
            raise OutOfReach("nested generator over symbolic bag")
        g = node.generators[0]
        parts, scalars = [], []
        self.pure += 1
        try:
            for bound, member, val in bag.parts:
                sub = Env({}, env)
                with self.scope(member):
                    self.bind_target(g.target, val, sub)
                    conds = [member]
                    for c in g.ifs:
                        conds.append(self._as_term(self.truth_term(self.eval(c, sub))))
                    with self.scope(z3.And(*conds)):
                        v = self.eval(node.elt, sub)
                parts.append((bound, z3.And(*conds), v))
            for sc in bag.scalars:
                sub = Env({}, env)
                self.bind_target(g.target, sc, sub)
                if all(self.truth_term(self.eval(c, sub)) is True for c in g.ifs):
                    scalars.append(self.eval(node.elt, sub))
                elif g.ifs:
                    raise OutOfReach("filtered scalar in symbolic bag")
        finally:
            self.pure -= 1
        return SGen(parts, scalars)

    def e_ListComp(self, node, env):
        if len(node.generators) == 1:
            first = self.eval(node.generators[0].iter, env)
            if isinstance(first, (SSet, SMap)):
                return self.symbolic_set_gen(node, env, first)
            if isinstance(first, SGen):
                return self.map_bag(node, env, first)
            return self.comprehension_value(node, env, list, first)
        return self.comprehension_value(node, env, list)

    def e_SetComp(self, node, env):
        return set(self.iterate_comprehension(node, env))

    def e_DictComp(self, node, env):
        return dict(self.iterate_comprehension(node, env))

    def comprehension_value(self, node, env, pytype, first=None):
        if len(node.generators) == 1 and not node.generators[0].ifs:
            g = node.generators[0]
            it = first if first is not None else self.eval(g.iter, env)
            si = sym_iter(it)
            if si is not None:
                s = self.map_symbolic(si, g.target, node.elt, env, pytype)
                return SList(s) if pytype is list else s
            return pytype(self._iterate_from(node, env, it))
        if first is not None:
            return pytype(self._iterate_from(node, env, first))
        return pytype(self.iterate_comprehension(node, env))

    def map_symbolic(self, si: "SIter", target, elt, env, pytype):
        """[elt for target in si] as an SSeq defined by a lambda over the index."""
        j = z3.Int(sym.fresh_name("j"))
        sub = Env({}, env)
        self.pure += 1  # inside a quantified scope nothing may fork: build terms
        try:
            with self.scope(z3.And(0 <= j, j < si.n)):
                self.bind_target(target, si.getter(SInt(j)), sub)
                v = self.eval(elt, sub)
        finally:
            self.pure -= 1
        kind = sym.kind_of_value(v)
        a = z3.Lambda([j], sym._elem_term(v, kind))
        return SSeq(z3.simplify(si.n), a, kind, pytype)

    def iterate_comprehension(self, node, env):
        it = self.eval(node.generators[0].iter, env)
        return self._iterate_from(node, env, it)

    def _iterate_from(self, node, env, first_iter):
        def rec(gi, sub):
            if gi == len(node.generators):
                if isinstance(node, ast.DictComp):
                    yield (self.eval(node.key, sub), self.eval(node.value, sub))
                else:
                    yield self.eval(node.elt, sub)
                return
            g = node.generators[gi]
            it = first_iter if gi == 0 else self.eval(g.iter, sub)
            if sym_iter(it) is not None or isinstance(it, (SSet, SMap, SGen)):
                raise OutOfReach("comprehension over symbolic-length iterable in unsupported position")
            for item in it:
                s2 = Env({}, sub)
                self.bind_target(g.target, item, s2)
                ok = True
                for c in g.ifs:
                    if not self.truth(self.eval(c, s2)):
                        ok = False
                        break
                if ok:
                    yield from rec(gi + 1, s2)

        return rec(0, env)

    def symbolic_set_gen(self, node, env, first):
        if len(node.generators) != 1:
            raise OutOfReach("nested generator over symbolic set")
        g = node.generators[0]
        S = first.keys() if isinstance(first, SMap) else first
        x = S.kind.fresh("x")
        sub = Env({}, env)
        member = sym.select(S.dom, x.e)
        self.pure += 1  # inside a quantified scope nothing may fork: build terms
        try:
            with self.scope(member):
                self.bind_target(g.target, x, sub)
                conds = [member]
                for c in g.ifs:
                    with self.scope(z3.And(*conds)):
                        conds.append(self._as_term(self.truth_term(self.eval(c, sub))))
                with self.scope(z3.And(*conds)):
                    v = self.eval(node.elt, sub)
        finally:
            self.pure -= 1
        return SGen([(x.e, z3.And(*conds), v)])

    @staticmethod
    def _as_term(t):
        return z3.BoolVal(t) if isinstance(t, bool) else t

    # -- calls ---------------------------------------------------------------------------------------
    def e_Call(self, node, env):
        fn = self.eval(node.func, env)
        args = []
        for a in node.args:
            if isinstance(a, ast.Starred):
                v = self.eval(a.value, env)
                if isinstance(v, SGen):
                    args.append(v)
                    continue
                if sym_iter(v) is not None:
                    raise OutOfReach("star-args of symbolic length")
                args.extend(v)
            else:
                args.append(self.eval(a, env))
        kwargs = {}
        for k in node.keywords:
            if k.arg is None:
                kwargs.update(self.eval(k.value, env))
            else:
                kwargs[k.arg] = self.eval(k.value, env)
        h = self.hooks.get("before_call")
        if h is not None:
            h(self, fn, args, kwargs, node, env)
        return self.call(fn, args, kwargs, node)

    def call(self, fn, args, kwargs, node=None):
        from . import models

        # bound methods of record objects / closures
        if isinstance(fn, Closure):
            return fn(*args, **kwargs)
        if isinstance(fn, BoundRec):
            return self.call(fn.fn, [fn.self_] + list(args), kwargs, node)
        target = fn
        self_arg = None
        if isinstance(fn, types.MethodType):
            target, self_arg = fn.__func__, fn.__self__
        # 1. contract
        c = self.registry.get(_fn_key(target))
        if c is not None:
            a = ([self_arg] if self_arg is not None else []) + list(args)
            return c.apply(self, a, kwargs, node)
        # 2. model (contract-local models first)
        m = self.local_models.get(_fn_key(target)) or models.lookup(fn)
        if m is not None:
            r = m(self, args, kwargs)
            if r is not NotImplemented:
                return r
        # 3. inline
        src = self.inline(target)
        if src is not None:
            fnode, g, defaults_owner = src
            a = ([self_arg] if self_arg is not None else []) + list(args)
            return self.call_ast_function(fnode, Env({}, None, g), a, kwargs, name=getattr(target, "__qualname__", "?"),
                                          fn_obj=target)
        # 4. native
        if sym.contains_sym(args) or sym.contains_sym(kwargs) or (self_arg is not None and isinstance(self_arg, Sym)):
            m2 = models.lookup_method(fn)
            if m2 is not None:
                r = m2(self, args, kwargs)
                if r is not NotImplemented:
                    return r
            name = getattr(fn, "__qualname__", repr(fn))
            if getattr(fn, "__module__", None) in ("builtins", None) or isinstance(fn, (types.BuiltinFunctionType, type)):
                # builtins on proxies: try natively (proxies implement the data model); OutOfReach propagates
                return fn(*args, **kwargs)
            if getattr(fn, "_pyvc_native_ok", False) or isinstance(self_arg, Sym):
                return fn(*args, **kwargs)
            raise OutOfReach(f"call of {name} with symbolic arguments has no contract/model/inline rule")
        return fn(*args, **kwargs)

    def call_ast_function(self, fnode, env, args, kwargs, name="?", fn_obj=None):
        sub = Env({}, env, env.globals)
        self.bind_params(fnode.args, args, kwargs, sub, env, fn_obj)
        if isinstance(fnode, ast.Lambda):
            return self.eval(fnode.body, sub)
        if _is_generator(fnode):
            raise OutOfReach(f"generator function {name}")
        try:
            self.exec_block(fnode.body, sub)
        except _Return as r:
            return r.v
        return None

    def bind_params(self, a: ast.arguments, args, kwargs, sub, defenv, fn_obj=None):
        pos = [p.arg for p in a.posonlyargs + a.args]
        kwargs = dict(kwargs)
        n_pos_defaults = len(a.defaults)
        for i, name in enumerate(pos):
            if i < len(args):
                sub.vars[name] = args[i]
            elif name in kwargs:
                sub.vars[name] = kwargs.pop(name)
            else:
                di = i - (len(pos) - n_pos_defaults)
                if di < 0:
                    raise TypeError(f"missing argument {name}")
                sub.vars[name] = self._default(a.defaults[di], defenv, fn_obj, name)
        if len(args) > len(pos):
            if a.vararg is None:
                raise TypeError("too many positional arguments")
            sub.vars[a.vararg.arg] = tuple(args[len(pos):])
        elif a.vararg is not None:
            sub.vars[a.vararg.arg] = ()
        for p, d in zip(a.kwonlyargs, a.kw_defaults):
            if p.arg in kwargs:
                sub.vars[p.arg] = kwargs.pop(p.arg)
            elif d is not None:
                sub.vars[p.arg] = self._default(d, defenv, fn_obj, p.arg)
            else:
                raise TypeError(f"missing keyword argument {p.arg}")
        if a.kwarg is not None:
            sub.vars[a.kwarg.arg] = kwargs
        elif kwargs:
            raise TypeError(f"unexpected keyword arguments {sorted(kwargs)}")

    def _default(self, node, defenv, fn_obj, name):
        if fn_obj is not None:
            import inspect

            try:
                p = inspect.signature(fn_obj).parameters[name]
                if p.default is not inspect.Parameter.empty:
                    return p.default
            except (ValueError, KeyError, TypeError):
                pass
        return self.eval(node, defenv)

    # ------------------------------------------------------------------------------------------
    # statements

    def exec_block(self, stmts, env):
        for s in stmts:
            self.exec(s, env)

    def exec(self, node, env):
        m = getattr(self, "s_" + type(node).__name__, None)
        if m is None:
            raise OutOfReach(f"unsupported statement {type(node).__name__} at line {getattr(node, 'lineno', '?')}")
        return m(node, env)

    def s_Expr(self, node, env):
        if isinstance(node.value, ast.Constant):
            return
        self.eval(node.value, env)

    def s_Pass(self, node, env):
        pass

    def s_Import(self, node, env):
        import importlib

        for a in node.names:
            mod = importlib.import_module(a.name)
            env.assign(a.asname or a.name.split(".")[0], mod if a.asname else importlib.import_module(a.name.split(".")[0]))

    def s_ImportFrom(self, node, env):
        import importlib

        if node.level:
            pkg = env.globals.get("__package__") or env.globals.get("__name__", "").rpartition(".")[0]
            mod = importlib.import_module("." * node.level + (node.module or ""), pkg)
        else:
            mod = importlib.import_module(node.module)
        for a in node.names:
            env.assign(a.asname or a.name, getattr(mod, a.name))

    def s_Global(self, node, env):
        env.globals_decl.update(node.names)

    def s_Nonlocal(self, node, env):
        env.nonlocals.update(node.names)

    def s_Assign(self, node, env):
        v = self.eval(node.value, env)
        for t in node.targets:
            self.bind_target(t, v, env)

    def s_AnnAssign(self, node, env):
        if node.value is not None:
            self.bind_target(node.target, self.eval(node.value, env), env)

    def s_AugAssign(self, node, env):
        t = node.target
        op = type(node.op)
        if isinstance(t, ast.Name):
            cur = env.lookup(t.id)
            env.assign(t.id, self.aug(op, cur, self.eval(node.value, env)))
        elif isinstance(t, ast.Attribute):
            o = self.eval(t.value, env)
            cur = self.getattr(o, t.attr)
            self.setattr(o, t.attr, self.aug(op, cur, self.eval(node.value, env)))
        elif isinstance(t, ast.Subscript):
            o = self.eval(t.value, env)
            idx = self.eval_index(t.slice, env)
            cur = self.getitem(o, idx)
            self.setitem(o, idx, self.aug(op, cur, self.eval(node.value, env)))
        else:
            raise OutOfReach("augmented assignment target")

    def aug(self, op, cur, v):
        if isinstance(cur, Sym) or isinstance(v, Sym):
            if isinstance(cur, SList) and op is ast.Add:
                cur.extend(v)
                return cur
            return self.binop(op, cur, v)
        return _IBINOPS[op](cur, v)

    def setattr(self, o, name, v):
        h = self.hooks.get("setattr")
        if h is not None and h(self, o, name, v) is not NotImplemented:
            return
        if isinstance(o, SRec):
            o.setattr(self, name, v)
        else:
            setattr(o, name, v)

    def setitem(self, o, idx, v):
        if isinstance(o, list) and isinstance(idx, (SInt, SBool)):
            n = len(o)
            ti = sym.as_int_term(idx)
            paths.current().require(z3.And(ti >= -n, ti < n), "safe.index")
            ti = z3.If(ti >= 0, ti, ti + n)
            for i in range(n):
                o[i] = self.ite(ti == i, v, o[i])
            return
        if isinstance(o, dict) and isinstance(idx, Sym) and not isinstance(idx, SObj):
            for k in o:
                if self.truth(self.compare(ast.Eq, idx, k)):
                    o[k] = v
                    return
            raise OutOfReach("store of a new symbolic key into a concrete dict")
        o[idx] = v

    def bind_target(self, t, v, env):
        if isinstance(t, ast.Name):
            env.assign(t.id, v)
        elif isinstance(t, (ast.Tuple, ast.List)):
            si = sym_iter(v)
            if si is not None:
                n = len(t.elts)
                if any(isinstance(e, ast.Starred) for e in t.elts):
                    raise OutOfReach("starred unpack of symbolic sequence")
                paths.current().require(si.n == n, "safe.unpack", exc="ValueError")
                vals = [si.getter(i) for i in range(n)]
            else:
                vals = list(v)
                star = [i for i, e in enumerate(t.elts) if isinstance(e, ast.Starred)]
                if star:
                    i = star[0]
                    after = len(t.elts) - i - 1
                    if len(vals) < len(t.elts) - 1:
                        raise ValueError("not enough values to unpack")
                    mid = vals[i: len(vals) - after]
                    vals = vals[:i] + [mid] + vals[len(vals) - after:]
                elif len(vals) != len(t.elts):
                    raise ValueError("unpack length mismatch")
            for e, x in zip(t.elts, vals):
                self.bind_target(e.value if isinstance(e, ast.Starred) else e, x, env)
        elif isinstance(t, ast.Attribute):
            self.setattr(self.eval(t.value, env), t.attr, v)
        elif isinstance(t, ast.Subscript):
            self.setitem(self.eval(t.value, env), self.eval_index(t.slice, env), v)
        else:
            raise OutOfReach("assignment target")

    def s_Delete(self, node, env):
        for t in node.targets:
            if isinstance(t, ast.Subscript):
                del self.eval(t.value, env)[self.eval_index(t.slice, env)]
            elif isinstance(t, ast.Name):
                del env.vars[t.id]
            else:
                raise OutOfReach("del target")

    def s_Return(self, node, env):
        raise _Return(self.eval(node.value, env) if node.value is not None else None)

    def s_Break(self, node, env):
        raise _Break()

    def s_Continue(self, node, env):
        raise _Continue()

    def s_If(self, node, env):
        if self.truth(self.eval(node.test, env)):
            self.exec_block(node.body, env)
        else:
            self.exec_block(node.orelse, env)

    def s_Raise(self, node, env):
        if node.exc is None:
            cur = getattr(self, "_handling", None)
            if not cur:
                raise OutOfReach("bare raise outside an except block")
            raise cur[-1]
        e = self.eval(node.exc, env)
        if isinstance(e, type):
            e = e()
        raise e

    def s_Assert(self, node, env):
        v = self.eval(node.test, env)
        t = self.truth_term(v)
        if t is True:
            return
        if not self.branch(self._as_term(t)):
            raise AssertionError("symbolic assert")

    def s_FunctionDef(self, node, env):
        env.assign(node.name, Closure(self, node, env, node.name))

    s_AsyncFunctionDef = s_FunctionDef

    def e_Await(self, node, env):
        # cooperative scheduling: the awaited expression's model supplies the value that arrives; everything between two
        # awaits is atomic, so invariants proved at the suspension points hold in every interleaving
        v = self.eval(node.value, env)
        h = self.hooks.get("await")
        return h(self, v, node, env) if h is not None else v

    def s_AsyncWith(self, node, env):
        entered = []
        for it in node.items:
            v = self.eval(it.context_expr, env)
            if isinstance(v, Sym) and hasattr(v, "aenter"):
                v.aenter()  # model of `await v.__aenter__()` (contract-supplied)
                entered.append(v)
            if it.optional_vars is not None:
                self.bind_target(it.optional_vars, v, env)
        try:
            self.exec_block(node.body, env)
        finally:
            for v in reversed(entered):
                v.aexit()  # runs on normal exit, return and exceptions alike, as `async with` guarantees

    def s_Try(self, node, env):
        try:
            try:
                self.exec_block(node.body, env)
            except (_Return, _Break, _Continue, paths.Infeasible, paths.PathEnd, OutOfReach, SpecError):
                raise
            except Exception as ex:  # python-level exception raised by interpreted code
                for h in node.handlers:
                    types_ = self.eval(h.type, env) if h.type is not None else Exception
                    if isinstance(ex, types_):
                        if h.name:
                            env.assign(h.name, ex)
                        self._handling = getattr(self, "_handling", []) + [ex]  # for a bare `raise` inside the handler
                        try:
                            self.exec_block(h.body, env)
                        finally:
                            self._handling = self._handling[:-1]
                        break
                else:
                    raise
            else:
                self.exec_block(node.orelse, env)
        finally:
            if node.finalbody:
                self.exec_block(node.finalbody, env)

    def s_With(self, node, env):
        raise OutOfReach("with statement")

    # -- loops ------------------------------------------------------------------------------------------
    def _loop_ordinal(self, node):
        return getattr(node, "_pyvc_ordinal", None)

    def s_For(self, node, env):
        it = self.eval(node.iter, env)
        si = sym_iter(it)
        if si is None:
            if isinstance(it, (SSet, SMap)):
                return self.set_loop(node, env, it.keys() if isinstance(it, SMap) else it)
            if isinstance(it, SGen):
                raise OutOfReach("for-loop over symbolic bag")
            broke = False
            for item in it:
                self.bind_target(node.target, item, env)
                try:
                    self.exec_block(node.body, env)
                except _Break:
                    broke = True
                    break
                except _Continue:
                    continue
            if not broke:
                self.exec_block(node.orelse, env)
            return
        self.cut_loop(node, env, si)

    def s_While(self, node, env):
        spec = self.loop_specs.get(self._loop_ordinal(node))
        if spec is None:
            # no invariant: unroll while the condition is decided (bounded by path budget)
            n = 0
            while self.truth(self.eval(node.test, env)):
                n += 1
                if n > 64:
                    raise OutOfReach("while loop without invariant exceeded 64 unrollings")
                try:
                    self.exec_block(node.body, env)
                except _Break:
                    return
                except _Continue:
                    continue
            self.exec_block(node.orelse, env)
            return
        self.cut_loop(node, env, None)

    def set_loop(self, node, env, S):
        """`for x in S` over a symbolic set.

        Recognised without an invariant: a body that is a single store `M[x] = e` into a symbolic dict, where `e`
        does not depend on earlier iterations (evaluated for an arbitrary element).  This is an exact summary of the
        loop (every element of S is visited once; stores to distinct keys commute): M'[x] = e(x) for x in S."""
        body = node.body
        if (len(body) == 1 and isinstance(body[0], ast.Assign) and len(body[0].targets) == 1
                and isinstance(body[0].targets[0], ast.Subscript) and isinstance(node.target, ast.Name)
                and isinstance(body[0].targets[0].slice, ast.Name) and body[0].targets[0].slice.id == node.target.id
                and not node.orelse):
            M = self.eval(body[0].targets[0].value, env)
            if isinstance(M, SMap) and _reads_only_at(body[0].value, body[0].targets[0].value, node.target.id):
                snapshot = M.snapshot()

                def member(x):
                    return sym.select(S.dom, x)

                def value(x):
                    sub = Env({node.target.id: S.kind.wrapf(x)}, env)
                    # reads of M inside e must see the pre-loop map for this key (distinct keys never interfere)
                    with self.scope(sym.select(S.dom, x)):
                        v = self.eval(body[0].value, sub)
                    return sym._elem_term(v, M.vkind)

                M.update_where(member, value)
                self.trace.append(f"set-loop summarised at line {node.lineno}")
                return
        raise OutOfReach(f"for-loop over a symbolic set at line {node.lineno} is not of the summarised form `for x in S: M[x] = e`")

    def cut_loop(self, node, env, si):
        ordinal = self._loop_ordinal(node)
        spec = self.loop_specs.get(ordinal)
        if spec is None:
            raise OutOfReach(f"loop #{ordinal} at line {node.lineno} iterates over a symbolic-length value and has no invariant")
        p = paths.current()
        fname = spec.owner
        kname = spec.index
        # 1. invariant on entry
        genv = Env({kname: 0} if kname else {}, env)
        genv.vars.update(self.ghost_env)
        for n_, inv in enumerate(spec.inv):
            t = self.eval_spec(inv, genv)
            p.prove(self._as_term(t), f"{fname}#inv-init.{ordinal}.{n_}", "inv-init")
        # 2. havoc everything the loop may assign
        assigned = _assigned_names(node)
        for name in sorted(assigned):
            try:
                cur = env.lookup(name)
            except NameError:
                continue
            env.assign(name, self.havoc_like(cur, name, spec))
        for expr in spec.modifies:
            cur = self.eval_spec(expr, env, pure=False)
            self.havoc_inplace(cur, expr)
        k = None
        if kname:
            k = sym.fresh_int(kname)
            if si is not None:
                p.assume(z3.And(k.e >= 0, k.e <= si.n))
            else:
                p.assume(k.e >= 0)
        genv = Env({kname: k} if kname else {}, env)
        genv.vars.update(self.ghost_env)
        for inv in spec.inv:
            t = self.eval_spec(inv, genv)
            p.assume(self._as_term(t))
        # 3. one arbitrary iteration, or exit
        if si is not None:
            if k is None:
                raise SpecError("for-loop invariant needs an index name")
            more = self.branch(k.e < si.n)
        else:
            more = self.truth(self.eval(node.test, env))
        if more:
            from .api import _snapshot as _snap, apply_use

            heads = {}
            for name in sorted(assigned):
                try:
                    heads[name + "_head"] = _snap(env.lookup(name))
                except NameError:
                    pass
            if si is not None:
                self.bind_target(node.target, si.getter(k), env)
            try:
                self.exec_block(node.body, env)
            except _Continue:
                pass
            except _Break:
                return  # leaves the loop with the current state (no else clause)
            genv2 = Env({kname: (k + 1)} if kname else {}, env)
            genv2.vars.update(self.ghost_env)
            if spec.uses:
                uenv = Env(dict(heads), genv2)
                if kname:
                    uenv.vars[kname] = k
                for u in spec.uses:
                    apply_use(self, u, uenv, fname)
            for n_, inv in enumerate(spec.inv):
                t = self.eval_spec(inv, genv2)
                p.prove(self._as_term(t), f"{fname}#inv-step.{ordinal}.{n_}", "inv-step")
            raise paths.PathEnd()
        # exit: k == n (for) / not cond (while) has been assumed by the branch
        if kname:
            self.ghost_env[kname + "_final"] = k
        # ghost snapshots of the loop-assigned variables at loop exit: <name>_after<ordinal>
        from .api import _snapshot

        for name in sorted(assigned):
            try:
                self.ghost_env[f"{name}_after{ordinal}"] = _snapshot(env.lookup(name))
            except NameError:
                pass
        self.exec_block(node.orelse, env)

    def havoc_like(self, cur, name, spec=None):
        if spec is not None and name in spec.kinds:
            from .api import make_value

            return make_value(spec.kinds[name], name)
        if isinstance(cur, bool) or isinstance(cur, SBool):
            return sym.fresh_bool(name)
        if isinstance(cur, int) or isinstance(cur, SInt):
            return sym.fresh_int(name)
        if isinstance(cur, float) or isinstance(cur, SReal):
            return sym.fresh_real(name)
        if isinstance(cur, SSeq):
            return SSeq.fresh(cur.kind, name, cur.pytype)
        if isinstance(cur, SList):
            return SList(SSeq.fresh(cur.v.kind, name, list))
        if isinstance(cur, list):
            if not cur:
                raise OutOfReach(f"havoc of empty concrete list {name}: element kind unknown (declare kinds= in the loop spec)")
            return SList(SSeq.fresh(sym.kind_of_value(cur[0]), name, list))
        if isinstance(cur, SObj):
            return sym.fresh_obj(cur.sortname, name)
        if isinstance(cur, SMap):
            return SMap.fresh(cur.kkind, cur.vkind, name)
        if cur is None:
            raise OutOfReach(f"havoc of None-valued variable {name} (declare kinds= in the loop spec)")
        raise OutOfReach(f"cannot havoc loop variable {name} of type {type(cur).__name__}")

    def havoc_inplace(self, obj, label):
        if isinstance(obj, SList):
            obj.v = SSeq.fresh(obj.v.kind, str(label), list)
        elif isinstance(obj, SMap):
            f = SMap.fresh(obj.kkind, obj.vkind, str(label))
            obj.dom, obj.val = f.dom, f.val
        elif isinstance(obj, SRec):
            # a record: every mutable container field gets fresh contents (scalar fields are never rebound by a callee's contract)
            for k, x in object.__getattribute__(obj, "_fields").items():
                if isinstance(x, (SList, SMap)):
                    self.havoc_inplace(x, f"{label}.{k}")
        else:
            raise OutOfReach(f"cannot havoc {type(obj).__name__} in place")

    # -- contract expressions -----------------------------------------------------------------------------------
    def eval_spec(self, expr, env, pure=True):
        node = expr if isinstance(expr, ast.AST) else _parse_expr(expr)
        if self.spec_globals:
            g = dict(env.globals)
            g.update(self.spec_globals)
            env = Env({}, env, g)
        if not pure:
            return self.eval(node, env)
        self.pure += 1
        try:
            v = self.eval(node, env)
            return self.truth_term(v) if not isinstance(v, (bool,)) else v
        except OutOfReach as e:
            raise SpecError(f"contract expression `{expr if isinstance(expr, str) else ast.unparse(expr)}`: {e}") from e
        finally:
            self.pure -= 1


_PARSE_CACHE: dict = {}


def _parse_expr(s: str):
    if s not in _PARSE_CACHE:
        _PARSE_CACHE[s] = ast.parse(s.strip(), mode="eval").body
    return _PARSE_CACHE[s]


def _fn_key(fn):
    return getattr(fn, "__module__", None), getattr(fn, "__qualname__", None)


def _is_generator(fnode):
    for n in ast.walk(fnode):
        if isinstance(n, (ast.Yield, ast.YieldFrom)):
            return True
    return False


def _reads_only_at(rhs, map_expr, var):
    """In `M[x] = rhs`: every mention of M inside rhs is `M[x]` or `M.get(x, ...)` (so iterations are independent)."""
    mtxt = ast.unparse(map_expr)
    ok_nodes = set()
    for n in ast.walk(rhs):
        if isinstance(n, ast.Subscript) and ast.unparse(n.value) == mtxt and isinstance(n.slice, ast.Name) and n.slice.id == var:
            ok_nodes.add(id(n.value))
        if (isinstance(n, ast.Call) and isinstance(n.func, ast.Attribute) and n.func.attr == "get"
                and ast.unparse(n.func.value) == mtxt and n.args and isinstance(n.args[0], ast.Name) and n.args[0].id == var):
            ok_nodes.add(id(n.func.value))
    for n in ast.walk(rhs):
        if isinstance(n, (ast.Name, ast.Attribute)) and ast.unparse(n) == mtxt and id(n) not in ok_nodes:
            return False
    return True


def _assigned_names(loop):
    names = set()

    def targets(t):
        if isinstance(t, ast.Name):
            names.add(t.id)
        elif isinstance(t, (ast.Tuple, ast.List)):
            for e in t.elts:
                targets(e.value if isinstance(e, ast.Starred) else e)

    for n in ast.walk(loop):
        if isinstance(n, ast.Assign):
            for t in n.targets:
                targets(t)
        elif isinstance(n, (ast.AugAssign, ast.AnnAssign)):
            targets(n.target)
        elif isinstance(n, ast.For):
            targets(n.target)
        elif isinstance(n, ast.NamedExpr):
            targets(n.target)
        elif isinstance(n, (ast.With,)):
            for it in n.items:
                if it.optional_vars is not None:
                    targets(it.optional_vars)
    # objects mutated through method calls on a plain name: x.append(..), x.reverse(), x[i] = ..
    for n in ast.walk(loop):
        if isinstance(n, ast.Call) and isinstance(n.func, ast.Attribute) and isinstance(n.func.value, ast.Name):
            if n.func.attr in ("append", "extend", "reverse", "insert", "pop", "add", "update", "remove", "clear", "sort"):
                names.add("@mut:" + n.func.value.id)
        if isinstance(n, (ast.Assign, ast.AugAssign)):
            ts = n.targets if isinstance(n, ast.Assign) else [n.target]
            for t in ts:
                if isinstance(t, ast.Subscript) and isinstance(t.value, ast.Name):
                    names.add("@mut:" + t.value.id)
    out = set()
    for n in names:
        out.add(n[5:] if n.startswith("@mut:") else n)
    return out


def number_loops(fnode):
    """Attach source-order ordinals to the loops of a function (nested defs included, in order)."""
    k = 0
    for n in ast.walk(fnode):
        pass
    order = []

    class V(ast.NodeVisitor):
        def visit_For(self, node):
            order.append(node)
            self.generic_visit(node)

        def visit_While(self, node):
            order.append(node)
            self.generic_visit(node)

    V().visit(fnode)
    for k, n in enumerate(order):
        n._pyvc_ordinal = k
    return len(order)


# ----------------------------------------------------------------------------------------------------
# record objects: symbolic `self`


class BoundRec:
    def __init__(self, fn, self_):
        self.fn, self.self_ = fn, self_


class SRec(Sym):
    """Object of a real class whose fields hold symbolic values.  Methods/properties come from the real class."""

    def __init__(self, cls, fields):
        object.__setattr__(self, "_cls", cls)
        object.__setattr__(self, "_fields", dict(fields))

    def __repr__(self):
        return f"SRec<{self._cls.__name__}>"

    __hash__ = object.__hash__

    def getattr(self, interp, name):
        f = object.__getattribute__(self, "_fields")
        if name in f:
            return f[name]
        cls = object.__getattribute__(self, "_cls")
        if name == "__class__":
            return cls
        import inspect

        try:
            raw = inspect.getattr_static(cls, name)
        except AttributeError:
            raise AttributeError(name)
        if isinstance(raw, property):
            return interp.call(raw.fget, [self], {})
        if isinstance(raw, staticmethod):
            return raw.__func__
        if isinstance(raw, classmethod):
            return types.MethodType(raw.__func__, cls)
        if isinstance(raw, types.FunctionType):
            return BoundRec(raw, self)
        if hasattr(raw, "__get__") and hasattr(raw, "func"):  # functools.cached_property
            return interp.call(raw.func, [self], {})
        return raw

    def setattr(self, interp, name, v):
        object.__getattribute__(self, "_fields")[name] = v

    def __getattr__(self, name):
        # native access (from models): fields only
        f = object.__getattribute__(self, "_fields")
        if name in f:
            return f[name]
        raise AttributeError(name)
