"""Path exploration by re-execution with a decision trace, path conditions and obligations."""
from __future__ import annotations

import os
import subprocess
import tempfile
import time

import z3

_CURRENT = None

BRANCH_TIMEOUT_MS = int(os.environ.get("PYVC_BRANCH_TIMEOUT_MS", "3000"))
PROVE_TIMEOUT_MS = int(os.environ.get("PYVC_PROVE_TIMEOUT_MS", "30000" if os.environ.get("VERIF_TIER") == "thorough" else "10000"))
MAX_PATHS = int(os.environ.get("PYVC_MAX_PATHS", "4000"))


def _checked(solver, *assumptions, budget_ms):
    """solver.check with a hard wall-clock stop: z3's own timeout is not honoured inside some tactics."""
    import threading

    t = threading.Timer(budget_ms / 1000.0 + 2.0, solver.ctx.interrupt)
    t.daemon = True
    t.start()
    try:
        return solver.check(*assumptions)
    except z3.Z3Exception:
        return z3.unknown
    finally:
        t.cancel()


def current() -> "Path":
    if _CURRENT is None:
        raise RuntimeError("no active symbolic path")
    return _CURRENT


def active() -> bool:
    return _CURRENT is not None


class Infeasible(Exception):
    """The current path condition is unsatisfiable; the path is abandoned (not an error)."""


class PathEnd(Exception):
    """Normal early termination of a path (e.g. after an inv-step check)."""


class Obligation:
    def __init__(self, name, kind, status, ms, backend, model=None, detail="", smt2=None, pathid=""):
        self.name, self.kind, self.status, self.ms, self.backend = name, kind, status, ms, backend
        self.model, self.detail, self.smt2, self.pathid = model, detail, smt2, pathid
        self.case, self.concrete, self.model_text = None, None, None

    def to_json(self):
        return dict(name=self.name, kind=self.kind, status=self.status, ms=round(self.ms, 2), backend=self.backend,
                    detail=self.detail, path=self.pathid, case=self.case, concrete=self.concrete)


def cvc5_check(smt2: str, timeout_s: float) -> str:
    """Send an SMT-LIB2 query to the cvc5 CLI.  Returns 'unsat' | 'sat' | 'unknown'."""
    text = "(set-logic ALL)\n" + smt2
    if "(check-sat)" not in text:
        text += "\n(check-sat)\n"
    with tempfile.NamedTemporaryFile("w", suffix=".smt2", delete=False) as f:
        f.write(text)
        fn = f.name
    try:
        r = subprocess.run(["/usr/bin/cvc5", "--lang=smt2", f"--tlimit={int(timeout_s * 1000)}", fn],
                           capture_output=True, text=True, timeout=timeout_s + 5)
        out = r.stdout.strip().splitlines()
        return out[0] if out and out[0] in ("sat", "unsat", "unknown") else "unknown"
    except Exception:
        return "unknown"
    finally:
        os.unlink(fn)


_QCACHE: dict = {}


def has_quantifier(t) -> bool:
    """Does the term contain a quantifier or lambda?"""
    key = t.get_id()
    r = _QCACHE.get(key)
    if r is not None:
        return r[1]
    if z3.is_quantifier(t):
        r = True
    elif z3.is_app(t):
        r = any(has_quantifier(c) for c in t.children())
    else:
        r = False
    _QCACHE[key] = (t, r)  # keep the term alive: z3 reuses ids of freed terms
    return r


_VCACHE: dict = {}


def _has_var(t, depth=0) -> bool:
    """Does the term contain a *free* de-Bruijn variable (index >= number of enclosing binders inside t)?"""
    key = (t.get_id(), depth)
    r = _VCACHE.get(key)
    if r is not None:
        return r[1]
    if z3.is_var(t):
        r = z3.get_var_index(t) >= depth
    elif z3.is_app(t):
        r = any(_has_var(c, depth) for c in t.children())
    elif z3.is_quantifier(t):
        r = _has_var(t.body(), depth + t.num_vars())
    else:
        r = False
    _VCACHE[key] = (t, r)
    return r


class Path:
    def __init__(self, decisions, explorer):
        self.decisions = list(decisions)
        self.pos = 0
        self.explorer = explorer
        self.solver = z3.Solver()
        self.solver.set("timeout", BRANCH_TIMEOUT_MS)
        # quantifier-free under-approximation of the path condition (a weaker pc): used for the
        # feasibility of branches (sound: only ever explores more paths) and as a fast first try for validity
        self.qf = z3.Solver()
        self.qf.set("timeout", BRANCH_TIMEOUT_MS)
        self.pc = []
        self.alternatives = []
        self.axiom_keys = set()
        self.quantified = False
        self.notes = []
        self.spec_defs = {}    # z3 decl name -> (decl, bound consts, body term): definitions instantiated on demand
        self.inst_done = set()  # ids of application terms already instantiated
        self.visited = set()
        self._keep = []
        self.fuel = int(os.environ.get("PYVC_FUEL", "2"))
        self.pure = 0          # >0 while a contract expression is evaluated (no forking allowed)
        self.scope_depth = 0   # >0 inside a quantified / guarded sub-scope (no forking allowed)

    # -- assumptions ----------------------------------------------------------------------------
    def assume(self, f):
        if isinstance(f, bool):
            if not f:
                raise Infeasible()
            return
        if z3.is_true(f):
            return
        self._add(f)
        self.instantiate_defs(f)

    def _add(self, f):
        self.pc.append(f)
        self.solver.add(f)
        if not has_quantifier(f):
            self.qf.add(f)

    # -- spec-function definitions: quantifier-free instantiation with bounded fuel -----------------------
    def register_spec(self, decl, bound, body):
        self.spec_defs[decl.name()] = (decl, bound, body)

    def _collect_apps(self, t, out, bound_depth=0):
        tid = t.get_id()
        if tid in self.visited:
            return
        self.visited.add(tid)
        self._keep.append(t)
        if z3.is_quantifier(t):
            self._collect_apps(t.body(), out, bound_depth + 1)
            return
        if not z3.is_app(t):
            return
        for c in t.children():
            self._collect_apps(c, out, bound_depth)
        d = t.decl()
        if d.kind() == z3.Z3_OP_UNINTERPRETED and d.name() in self.spec_defs and t.num_args() > 0:
            if not _has_var(t):
                out.append(t)

    def instantiate_defs(self, f):
        if not self.spec_defs or isinstance(f, bool):
            return
        if self.scope_depth:
            # instances added inside a scope are popped with it: do not remember them
            saved = (set(self.inst_done), set(self.visited))
            try:
                self._instantiate(f)
            finally:
                self.inst_done, self.visited = saved
            return
        self._instantiate(f)

    def _instantiate(self, f):
        work = []
        self._collect_apps(f, work)
        gen = 0
        while work and gen <= self.fuel:
            nxt = []
            for app in work:
                if app.get_id() in self.inst_done:
                    continue
                self.inst_done.add(app.get_id())
                decl, bound, body = self.spec_defs[app.decl().name()]
                inst = z3.substitute(body, *[(b, app.arg(i)) for i, b in enumerate(bound)])
                eq = app == inst
                self._add(eq)
                self._collect_apps(inst, nxt)
            work = nxt
            gen += 1

    def use_axioms(self, key, axioms):
        if key in self.axiom_keys:
            return
        if self.scope_depth:
            raise RuntimeError(f"axioms {key} requested inside a scope; install them in the prelude")
        self.axiom_keys.add(key)
        self.quantified = True
        for a in axioms:
            self.solver.add(a)
            self.pc.append(a)

    # -- branching --------------------------------------------------------------------------------
    def _sat(self, f) -> bool:
        """May `pc and f` be satisfiable?  unknown counts as yes (sound: more paths)."""
        if self.scope_depth:
            return self.solver.check(f) != z3.unsat
        r = _checked(self.qf, f, budget_ms=BRANCH_TIMEOUT_MS)
        return r != z3.unsat

    def branch(self, cond) -> bool:
        if isinstance(cond, bool):
            return cond
        cond = z3.simplify(cond)
        if z3.is_true(cond):
            return True
        if z3.is_false(cond):
            return False
        if self.pure or self.scope_depth:
            if self.valid(cond):
                return True
            if self.valid(z3.Not(cond)):
                return False
            from .sym import OutOfReach

            raise OutOfReach(f"{'contract expression' if self.pure else 'quantified scope'} needs a case split on {str(cond)[:200]}")
        if self.pos < len(self.decisions):
            d = self.decisions[self.pos]
        else:
            can_t = self._sat(cond)
            can_f = self._sat(z3.Not(cond))
            if can_t and can_f:
                d = True
                self.alternatives.append(self.decisions[: self.pos] + [False])
            elif can_t:
                d = True
            elif can_f:
                d = False
            else:
                raise Infeasible()
            self.decisions.append(d)
        self.pos += 1
        self.assume(cond if d else z3.Not(cond))
        return d

    def require(self, cond, label, exc="IndexError"):
        """A Python-level runtime check: if `cond` may be false, the operation raises `exc`."""
        import builtins

        if not self.branch(cond):
            raise getattr(builtins, exc)(f"symbolic:{label}")

    def valid(self, f, quick=False) -> bool:
        """Is f implied by the path condition?  quick=True: used only to pick a simpler but equivalent
        encoding, so a short budget is enough (a miss costs precision of the term shape, not soundness)."""
        if isinstance(f, bool):
            return f
        nf = z3.Not(f)
        if not self.scope_depth and not has_quantifier(f):
            r = self.qf.check(nf)
            if r == z3.unsat:
                return True
            if not self.quantified:
                return False
        if quick:
            self.solver.set("timeout", 400)
        r = self.solver.check(nf)
        if quick:
            self.solver.set("timeout", BRANCH_TIMEOUT_MS)
        return r == z3.unsat

    # -- obligations ------------------------------------------------------------------------------
    def prove(self, f, name, kind):
        t0 = time.time()
        pathid = "".join("T" if d else "F" for d in self.decisions[: self.pos])
        ck = (name, pathid)
        if ck in self.explorer.proved_cache:
            # same obligation on the common prefix of a re-executed path: already discharged
            self.assume(f) if not isinstance(f, bool) else None
            return None
        if isinstance(f, bool) or z3.is_true(f) or z3.is_false(f):
            val = f if isinstance(f, bool) else z3.is_true(f)
            if val:
                ob = Obligation(name, kind, "proved", 0.0, "const", pathid=pathid)
                self.explorer.proved_cache.add(ck)
            else:
                # constant-false goal: a violation only if the path itself is feasible
                r = self.solver.check()
                if r == z3.unsat:
                    ob = Obligation(name, kind, "proved", 0.0, "z3(pc-unsat)", pathid=pathid)
                else:
                    ob = Obligation(name, kind, "failed" if r == z3.sat else "unknown", (time.time() - t0) * 1e3, "z3",
                                    model=self.solver.model() if r == z3.sat else None, detail="goal is False", pathid=pathid)
            self.explorer.obligations.append(ob)
            return ob
        self.instantiate_defs(f)
        s = self.solver
        s.set("timeout", PROVE_TIMEOUT_MS)
        s.push()
        s.add(z3.Not(f))
        r = _checked(s, budget_ms=PROVE_TIMEOUT_MS)
        model = s.model() if r == z3.sat else None
        smt2 = None
        backend = "z3"
        assertions = list(s.assertions()) if r == z3.unknown else None
        if r == z3.unknown:
            smt2 = s.to_smt2()
        s.pop()
        s.set("timeout", BRANCH_TIMEOUT_MS)
        status = "proved" if r == z3.unsat else ("failed" if r == z3.sat else "unknown")
        first_ms = (time.time() - t0) * 1e3
        if status == "unknown" and first_ms > 0.6 * PROVE_TIMEOUT_MS:
            assertions = []  # it ran out of time rather than giving up: same-budget retries would only repeat that
        if status == "unknown" and assertions:
            # robustness ladder: quantifier instantiation is heuristic, so retry the *same* query on fresh solvers with
            # different seeds, then on cvc5.  Only unsat/sat answers count; unknown stays unknown.
            for seed in (1, 7, 42):
                s2 = z3.Solver()
                s2.set("timeout", PROVE_TIMEOUT_MS)
                s2.set("random_seed", seed)
                s2.add(*assertions)
                r2 = _checked(s2, budget_ms=PROVE_TIMEOUT_MS)
                if r2 == z3.unsat:
                    status, backend = "proved", f"z3(fresh solver, seed {seed})"
                    break
                if r2 == z3.sat:
                    status, backend, model = "failed", f"z3(fresh solver, seed {seed})", s2.model()
                    break
        if status == "unknown" and smt2 is not None:
            r2 = cvc5_check(smt2, min(10.0, PROVE_TIMEOUT_MS / 1000.0))
            if r2 == "unsat":
                status, backend = "proved", "cvc5"
            elif r2 == "sat":
                status, backend = "failed", "cvc5"
        ob = Obligation(name, kind, status, (time.time() - t0) * 1e3, backend, model=model, pathid=pathid,
                        detail="" if status == "proved" else str(z3.simplify(f))[:400], smt2=None)
        self.explorer.obligations.append(ob)
        if status == "proved":
            self.explorer.proved_cache.add(ck)
        self.assume(f)
        return ob


class Explorer:
    """Runs `fn(path)` once per feasible decision trace."""

    def __init__(self):
        self.obligations = []
        self.proved_cache = set()
        self.paths = 0
        self.infeasible = 0
        self.truncated = False

    def run(self, fn):
        global _CURRENT
        work = [[]]
        while work:
            if self.paths >= MAX_PATHS:
                self.truncated = True
                break
            dec = work.pop()
            p = Path(dec, self)
            prev = _CURRENT
            _CURRENT = p
            try:
                fn(p)
            except Infeasible:
                self.infeasible += 1
            except PathEnd:
                pass
            finally:
                _CURRENT = prev
            self.paths += 1
            work.extend(p.alternatives)
        return self
