"""trigpoly — exact arithmetic for closed-form gate matrices, valid for ALL real parameter values.

Values are Laurent polynomials in independent unit-modulus atoms  u_m = cis(m / D)  (m a monomial in the gate's real
parameters, possibly times pi; D = 48) with coefficients in the cyclotomic field Q(zeta), zeta = exp(i*pi/8) (so i, sqrt(2),
cis(pi*k/8) are exact).  cos x = (u + 1/u)/2 etc.  Two closed forms are identical as functions of the parameters if their
normal forms are equal (distinct monomials in independent unit atoms are linearly independent functions); a parameter
product such as exponent*global_shift becomes its own atom (sound: an identity in independent atoms also holds for
dependent ones).  Floats are treated as exact reals (float-as-real): Python float literals are converted to Fractions.

The classes implement the Python/numpy number protocol so that the REAL gate code (`_unitary_`, `_eigen_components`,
`_apply_unitary_`, `_kraus_`) runs on them unchanged, inside numpy object arrays."""
from __future__ import annotations

import math
from fractions import Fraction

import numpy as np

N = 48  # zeta = exp(2*pi*i/48) = cis(pi/24); minimal polynomial x^16 - x^8 + 1
DEG = 16
D = 48  # atoms are cis(monomial / D)


# ---- coefficients: Q(zeta_48) as 16 Fractions (polynomials mod x^16 - x^8 + 1) -----------------------------------------
def _c(*vals):
    v = [Fraction(0)] * DEG
    for i, x in enumerate(vals):
        v[i] = Fraction(x)
    return tuple(v)


ZERO, ONE = _c(0), _c(1)


def _reduce(poly):
    """reduce a coefficient list of any length modulo x^16 = x^8 - 1"""
    p = list(poly)
    for k in range(len(p) - 1, DEG - 1, -1):
        c = p[k]
        if c:
            p[k] = Fraction(0)
            p[k - 8] += c
            p[k - 16] -= c
    p = p[:DEG] + [Fraction(0)] * max(0, DEG - len(p))
    return tuple(p[:DEG])


def c_add(a, b):
    return tuple(x + y for x, y in zip(a, b))


def c_neg(a):
    return tuple(-x for x in a)


def c_mul(a, b):
    r = [Fraction(0)] * (2 * DEG - 1)
    for i, x in enumerate(a):
        if x == 0:
            continue
        for j, y in enumerate(b):
            if y:
                r[i + j] += x * y
    return _reduce(r)


_ZP = {}


def c_zeta_pow(k):
    k %= N
    if k not in _ZP:
        v = [Fraction(0)] * (k + 1)
        v[k] = Fraction(1)
        _ZP[k] = _reduce(v)
    return _ZP[k]


def c_conj(a):
    r = ZERO
    for i, x in enumerate(a):
        if x:
            r = c_add(r, tuple(x * y for y in c_zeta_pow(-i)))
    return r


def c_is_zero(a):
    return all(x == 0 for x in a)


def c_inv(a):
    """inverse in the field, by solving a * x = 1 as a 16x16 rational linear system"""
    n = DEG
    A = [[Fraction(0)] * (n + 1) for _ in range(n)]
    for j in range(n):
        col = c_mul(a, c_zeta_pow(j))
        for i in range(n):
            A[i][j] = col[i]
    A[0][n] = Fraction(1)
    for col in range(n):
        piv = next((r for r in range(col, n) if A[r][col] != 0), None)
        if piv is None:
            raise ZeroDivisionError("not invertible")
        A[col], A[piv] = A[piv], A[col]
        pv = A[col][col]
        A[col] = [x / pv for x in A[col]]
        for r in range(n):
            if r != col and A[r][col] != 0:
                f = A[r][col]
                A[r] = [x - f * y for x, y in zip(A[r], A[col])]
    return tuple(A[i][n] for i in range(n))


C_I = c_zeta_pow(12)                       # i
C_SQRT2 = c_add(c_zeta_pow(6), c_zeta_pow(-6))   # 2 cos(pi/4)


def c_from_number(x):
    """exact coefficient for python numbers (floats as exact rationals; recognises k*sqrt(2)/.. only via Sqrt2 objects)"""
    if isinstance(x, (bool, int, np.integer)):
        return _c(int(x))
    if isinstance(x, Fraction):
        return _c(x)
    if isinstance(x, (float, np.floating)):
        return _real_coeff(float(x))
    if isinstance(x, (complex, np.complexfloating)):
        x = complex(x)
        return c_add(_real_coeff(x.real), c_mul(_real_coeff(x.imag), C_I))
    raise TypeError(type(x))


_COS = None


def _cos_table():
    """{rounded float: exact element} for q * cos(pi k / 24), small rational q: the real constants of Q(zeta_48)"""
    global _COS
    if _COS is None:
        _COS = {}
        for k in range(0, 25):
            ck = tuple((a + b) / 2 for a, b in zip(c_zeta_pow(k), c_zeta_pow(-k)))
            val = math.cos(math.pi * k / 24)
            for den in (1, 2, 3, 4, 8):
                for num in range(-8, 9):
                    if num == 0:
                        continue
                    q = Fraction(num, den)
                    _COS.setdefault(round(float(q) * val, 11), tuple(q * y for y in ck))
    return _COS


def _real_coeff(x: float):
    """float -> exact element of Q(sqrt2): small rationals and a + b*sqrt(2) are recognised (float-as-real with
    constant recognition; anything else is taken as the exact binary rational the float denotes)."""
    f = Fraction(x).limit_denominator(4096)
    if abs(float(f) - x) <= 1e-13 * max(1.0, abs(x)):
        return _c(f)
    key = round(x, 11)
    if key in _cos_table():
        return _cos_table()[key]
    r2 = math.sqrt(2)
    for den in (1, 2, 4, 8, 16):
        for num in range(-64, 65):
            if num == 0:
                continue
            b = Fraction(num, den)
            a = Fraction(x - float(b) * r2).limit_denominator(64)
            if abs(float(a) + float(b) * r2 - x) <= 1e-13 * max(1.0, abs(x)):
                return c_add(_c(a), tuple(b * y for y in C_SQRT2))
    return _c(Fraction(x))


_SQRT2_2 = math.sqrt(2) / 2


def _frac(x: float) -> Fraction:
    f = Fraction(x).limit_denominator(1 << 20)
    if abs(float(f) - x) < 1e-15:
        return f
    return Fraction(x)


def c_to_complex(a):
    z = complex(math.cos(2 * math.pi / N), math.sin(2 * math.pi / N))
    return sum(float(x) * z ** i for i, x in enumerate(a))


# ---- trig polynomials ---------------------------------------------------------------------------------------------------
class TrigPoly:
    """sum of coeff * prod(atom^power);  monomial key = tuple of (atom name, power), sorted"""

    __slots__ = ("t",)

    def __init__(self, terms=None):
        self.t = {k: v for k, v in (terms or {}).items() if not c_is_zero(v)}

    # construction
    @staticmethod
    def const(x):
        if isinstance(x, TrigPoly):
            return x
        if isinstance(x, Sqrt2):
            return x.as_poly()
        return TrigPoly({(): c_from_number(x)})

    @staticmethod
    def atom(name, power=1):
        if power == 0:
            return TrigPoly({(): ONE})
        return TrigPoly({((name, int(power)),): ONE})

    def is_const(self):
        return all(k == () for k in self.t)

    # arithmetic
    def __add__(self, o):
        o = _lift(o)
        if o is NotImplemented:
            return NotImplemented
        r = dict(self.t)
        for k, v in o.t.items():
            r[k] = c_add(r.get(k, ZERO), v)
        return TrigPoly(r)

    __radd__ = __add__

    def __neg__(self):
        return TrigPoly({k: c_neg(v) for k, v in self.t.items()})

    def __pos__(self):
        return self

    def __sub__(self, o):
        o = _lift(o)
        if o is NotImplemented:
            return NotImplemented
        return self + (-o)

    def __rsub__(self, o):
        return (-self) + o

    def __mul__(self, o):
        if isinstance(o, np.ndarray):
            return NotImplemented
        o = _lift(o)
        if o is NotImplemented:
            return NotImplemented
        r = {}
        for k1, v1 in self.t.items():
            for k2, v2 in o.t.items():
                k = _mono_mul(k1, k2)
                r[k] = c_add(r.get(k, ZERO), c_mul(v1, v2))
        return TrigPoly(r)

    __rmul__ = __mul__

    def __truediv__(self, o):
        o = _lift(o)
        if o is NotImplemented:
            return NotImplemented
        if len(o.t) != 1:
            raise ZeroDivisionError("division by a non-monomial trig polynomial")
        (k, v), = o.t.items()
        inv = TrigPoly({tuple((a, -p) for a, p in k): c_inv(v)})
        return self * inv

    def __rtruediv__(self, o):
        return _lift(o) / self

    def __pow__(self, n):
        if isinstance(n, (int, np.integer)) and n >= 0:
            r = TrigPoly.const(1)
            for _ in range(int(n)):
                r = r * self
            return r
        if isinstance(n, (int, np.integer)):
            return TrigPoly.const(1) / (self ** (-int(n)))
        return NotImplemented

    def conjugate(self):
        return TrigPoly({tuple((a, (p if a.startswith("sgn_") else -p)) for a, p in k): c_conj(v) for k, v in self.t.items()})

    conj = conjugate

    def __eq__(self, o):
        o = _lift(o)
        if o is NotImplemented:
            return False
        d = self - o
        if d.t == {}:
            return True
        if d.is_const() or CTX is None:
            return False
        return CTX.decide_poly_equal(self, o)

    def __ne__(self, o):
        return not self.__eq__(o)

    def same(self, o):
        """structural identity as functions of the atoms (never consults the decision context)"""
        o = _lift(o)
        return o is not NotImplemented and (self - o).t == {}

    def __hash__(self):
        return hash(tuple(sorted(self.t.items())))

    def __bool__(self):
        return self.t != {}

    def __abs__(self):
        if self.is_const():
            return abs(c_to_complex(self.t.get((), ZERO)))
        raise TypeError("abs of a non-constant trig polynomial")

    @property
    def real(self):
        return (self + self.conjugate()) * Fraction(1, 2)

    @property
    def imag(self):
        return (self - self.conjugate()) * TrigPoly({(): c_mul(_c(Fraction(-1, 2)), C_I)})  # (z - conj z)/(2i)

    def sqrt(self):
        if self.is_const():
            v = self.t.get((), ZERO)
            if all(x == 0 for x in v[1:]):
                q = v[0]
                if q == 2:
                    return Sqrt2(1).as_poly()
                if q == Fraction(1, 2):
                    return Sqrt2(Fraction(1, 2)).as_poly()
                r = _frac(math.sqrt(float(q)))
                if r * r == q:
                    return TrigPoly.const(r)
        r = _sqrt_by_registry(self)
        if r is not None:
            return r
        raise TypeError("sqrt of a general trig polynomial (use an algebraic atom)")

    # order comparisons: constants directly; otherwise only facts that follow from the registered domain (see UNIT_ROOTS)
    def _order(self, o, opname):
        o = _lift(o)
        if o is NotImplemented:
            return NotImplemented
        d = self - o
        if d.is_const():
            z = c_to_complex(d.t.get((), ZERO))
            if abs(z.imag) > 1e-15:
                raise Undecided("order comparison of a complex constant")
            return {"lt": z.real < 0, "le": z.real <= 0, "gt": z.real > 0, "ge": z.real >= 0}[opname]
        r = _order_by_registry(self, o, opname)
        if r is not None:
            return r
        if CTX is not None and hasattr(CTX, "decide_poly_order"):
            return CTX.decide_poly_order(self, o, opname)
        raise Undecided(f"order comparison between trig polynomials: {self!r} {opname} {o!r}")

    def __lt__(self, o):
        return self._order(o, "lt")

    def __le__(self, o):
        return self._order(o, "le")

    def __gt__(self, o):
        return self._order(o, "gt")

    def __ge__(self, o):
        return self._order(o, "ge")

    def evaluate(self, env):
        """numeric value for concrete atom angles: env[atom name] = angle in radians (the atom is cis(angle))"""
        tot = 0j
        for k, v in self.t.items():
            z = c_to_complex(v)
            for a, p in k:
                z *= complex(math.cos(env[a] * p), math.sin(env[a] * p))
            tot += z
        return tot

    def __repr__(self):
        if not self.t:
            return "0"
        parts = []
        for k, v in sorted(self.t.items()):
            c = c_to_complex(v)
            mon = "*".join(f"{a}^{p}" for a, p in k) or "1"
            parts.append(f"({c:.4g})*{mon}")
        return " + ".join(parts)


CTX = None  # decision context installed by the harness (pyvc/linrow.py); None = purely structural comparisons


# Domain knowledge for probabilities: UNIT_ROOTS holds trig polynomials known to take values in [0, 1] on the parameter domain
# (sin t and cos t for t in [0, pi/2], and their products).  Then c * b**2 with a rational 0 <= c is a perfect square with root
# sqrt(c) * b (when sqrt(c) lies in Q(zeta_48)), and lies in [0, 1] when c <= 1.  A harness installs the list for the duration
# of one obligation.
UNIT_ROOTS = []


def _const_sqrt(q):
    """exact sqrt of a nonnegative rational inside Q(zeta_48): rational squares times 1, 2, 3 or 6"""
    q = Fraction(q)
    if q < 0:
        return None
    if q == 0:
        return TrigPoly()
    for m, root in ((1, None), (2, "s2"), (3, "s3"), (6, "s6")):
        x = q / m
        r = _frac(math.sqrt(float(x)))
        if r * r == x:
            base = TrigPoly.const(r)
            if root is None:
                return base
            s2 = Sqrt2(1).as_poly()
            s3 = TrigPoly({(): c_add(c_zeta_pow(4), c_zeta_pow(-4))})  # 2 cos(pi/6)
            return base * (s2 if root == "s2" else s3 if root == "s3" else s2 * s3)
    return None


def _rational_multiple(X, B):
    """c with X == c * B for a rational c, else None"""
    if not B.t or not X.t:
        return None
    k0 = next(iter(B.t))
    if k0 not in X.t:
        return None
    nz = [(x, b) for x, b in zip(X.t[k0], B.t[k0]) if b != 0]
    if not nz:
        return None
    c = nz[0][0] / nz[0][1]
    return c if (X - B * c).t == {} else None


def _sqrt_by_registry(X):
    for b in UNIT_ROOTS:
        c = _rational_multiple(X, b * b)
        if c is not None and c >= 0:
            r = _const_sqrt(c)
            if r is not None:
                return r * b
    return None


def _in_unit_interval(X):
    if X.is_const():
        z = c_to_complex(X.t.get((), ZERO))
        return abs(z.imag) < 1e-15 and 0 <= z.real <= 1
    for b in UNIT_ROOTS:
        c = _rational_multiple(X, b * b)
        if c is not None and 0 <= c <= 1:
            return True
        c = _rational_multiple(X, b)
        if c is not None and 0 <= c <= 1:
            return True
    return False


def _order_by_registry(a, b, opname):
    """facts of the form  X < 0, X > 1, X <= 1, X >= 0  (and mirrored) for X known to lie in [0, 1]"""
    if b.is_const() and _in_unit_interval(a):
        z = c_to_complex(b.t.get((), ZERO)).real
        if z <= 0 and opname == "lt":
            return False
        if z <= 0 and opname == "ge":
            return True
        if z >= 1 and opname == "gt":
            return False
        if z >= 1 and opname == "le":
            return True
        if z < 0 and opname in ("le",):
            return False
        if z < 0 and opname in ("gt",):
            return True
        if z > 1 and opname in ("ge",):
            return False
        if z > 1 and opname in ("lt",):
            return True
    if a.is_const() and _in_unit_interval(b):
        mirror = {"lt": "gt", "gt": "lt", "le": "ge", "ge": "le"}[opname]
        return _order_by_registry(b, a, mirror)
    return None


def _mono_mul(k1, k2):
    d = dict(k1)
    for a, p in k2:
        d[a] = d.get(a, 0) + p
    # sign atoms (-1)**K of integer symbols: real, w*w == 1
    return tuple(sorted((a, (p % 2 if a.startswith("sgn_") else p)) for a, p in d.items() if (p % 2 if a.startswith("sgn_") else p) != 0))


class Sqrt2:
    """q * sqrt(2) as an exact constant"""

    def __init__(self, q):
        self.q = Fraction(q)

    def as_poly(self):
        return TrigPoly({(): tuple(self.q * y for y in C_SQRT2)})


def _lift(o):
    if isinstance(o, TrigPoly):
        return o
    if isinstance(o, Angle):
        if o.is_number():
            return TrigPoly.const(o.number())
        return NotImplemented
    if isinstance(o, Sqrt2):
        return o.as_poly()
    if isinstance(o, (bool, int, float, complex, Fraction, np.integer, np.floating, np.complexfloating)):
        return TrigPoly.const(o)
    return NotImplemented


# ---- symbolic real parameters and angles -----------------------------------------------------------------------------------
class Angle:
    """A real (or purely imaginary, flag `imag`) polynomial expression in the parameters, kept as
    {monomial (sorted tuple of symbol names): Fraction}.  'pi' is a symbol; the empty monomial is the constant term.
    cis/cos/sin/exp turn it into a TrigPoly."""

    __slots__ = ("m", "imag")

    def __init__(self, m=None, imag=False):
        self.m = {k: Fraction(v) for k, v in (m or {}).items() if v != 0}
        self.imag = imag

    @staticmethod
    def sym(name):
        return Angle({(name,): 1})

    @staticmethod
    def of(x):
        if isinstance(x, Angle):
            return x
        if isinstance(x, (bool, int, np.integer)):
            return Angle({(): Fraction(int(x))})
        if isinstance(x, Fraction):
            return Angle({(): x})
        if isinstance(x, (float, np.floating)):
            x = float(x)
            k = x / math.pi
            fk = Fraction(k).limit_denominator(96)
            if x != 0 and abs(float(fk) - k) < 1e-14:
                return Angle({("pi",): fk})  # multiples of pi written as floats (np.pi / 2 ...)
            return Angle({(): _frac(x)})
        if isinstance(x, (complex, np.complexfloating)):
            x = complex(x)
            if x.real == 0:
                a = Angle.of(x.imag)
                return Angle(a.m, imag=True)
            if x.imag == 0:
                return Angle.of(x.real)
        return NotImplemented

    def is_number(self):
        return all(k == () for k in self.m)

    def number(self):
        v = self.m.get((), Fraction(0))
        return complex(0, float(v)) if self.imag else v

    def _bin(self, o, sign):
        o = Angle.of(o)
        if o is NotImplemented:
            return NotImplemented
        if o.imag != self.imag and o.m and self.m:
            return NotImplemented
        r = dict(self.m)
        for k, v in o.m.items():
            r[k] = r.get(k, 0) + sign * v
        return Angle(r, self.imag if self.m else o.imag)

    def __add__(self, o):
        return self._bin(o, 1)

    __radd__ = __add__

    def __sub__(self, o):
        return self._bin(o, -1)

    def __rsub__(self, o):
        return (-self)._bin(o, 1)

    def __neg__(self):
        return Angle({k: -v for k, v in self.m.items()}, self.imag)

    def __pos__(self):
        return self

    def __mul__(self, o):
        if isinstance(o, (TrigPoly, np.ndarray)):
            return NotImplemented
        o = Angle.of(o)
        if o is NotImplemented:
            return NotImplemented
        r = {}
        for k1, v1 in self.m.items():
            for k2, v2 in o.m.items():
                k = list(k1 + k2)
                while "pi" in k and "invpi" in k:
                    k.remove("pi")
                    k.remove("invpi")
                k = tuple(sorted(k))
                r[k] = r.get(k, 0) + v1 * v2
        if self.imag and o.imag:
            return Angle({k: -v for k, v in r.items()}, False)
        return Angle(r, self.imag or o.imag)

    __rmul__ = __mul__

    def __truediv__(self, o):
        o = Angle.of(o)
        if o is NotImplemented or o.imag:
            return NotImplemented
        if o.is_number():
            return self * (1 / o.m[()])
        if list(o.m) == [("pi",)]:
            return self * Angle({("invpi",): 1 / o.m[("pi",)]})
        return NotImplemented

    def __rtruediv__(self, o):
        if list(self.m) == [("pi",)] and not self.imag:
            return Angle.of(o) * Angle({("invpi",): 1 / self.m[("pi",)]})
        return NotImplemented

    def __rpow__(self, base):
        # base ** angle:  1j ** x = cis(pi x / 2);  (-1) ** x = cis(pi x)
        if self.imag:
            return NotImplemented
        if base == 1j:
            return (self * Angle({("pi",): Fraction(1, 2)})).cis()
        if base == -1:
            return (self * Angle({("pi",): 1})).cis()
        if base == -1j:
            return (self * Angle({("pi",): Fraction(-1, 2)})).cis()
        if isinstance(base, (int, float)) and base == 1:
            return TrigPoly.const(1)
        return NotImplemented

    # numpy ufunc hooks on object scalars / arrays: np.exp(x) -> x.exp(), np.cos(x) -> x.cos() ...
    def cis(self):
        """cis(self) for a real angle"""
        r = TrigPoly.const(1)
        for k, q in self.m.items():
            if k == ():
                if q == 0:
                    continue
                raise TypeError(f"cis of a non-pi constant angle {q} is not representable exactly")
            if k == ("pi",):
                p = q * (N // 2)
                if p.denominator != 1:
                    raise TypeError(f"cis(pi*{q}) is outside Q(zeta_{N})")
                r = r * TrigPoly({(): c_zeta_pow(int(p))})
                continue
            ints = [x for x in k if x.startswith("int#")]
            if len(ints) == 1 and sorted(k) == sorted(["pi", ints[0]]) and q.denominator == 1:
                # cis(pi * q * K), K an integer: 1 for even q, the sign (-1)**K for odd q (a unit atom of its own)
                if q % 2 == 1:
                    r = r * TrigPoly.atom("sgn_" + ints[0], 1)
                continue
            p = q * D
            if p.denominator != 1:
                raise TypeError(f"angle coefficient {q} of {k} needs a finer atom denominator than {D}")
            r = r * TrigPoly.atom("*".join(k), int(p))
        return r

    def exp(self):
        if self.imag:
            return Angle(self.m).cis()
        if not self.m:
            return TrigPoly.const(1)
        raise TypeError("exp of a real symbolic value")

    def cos(self):
        c = self.cis()
        return (c + c.conjugate()) * Fraction(1, 2)

    def sin(self):
        c = self.cis()
        return (c - c.conjugate()) * TrigPoly({(): c_mul(_c(Fraction(-1, 2)), C_I)})

    def conjugate(self):
        return Angle({k: -v for k, v in self.m.items()}, True) if self.imag else self

    def __eq__(self, o):
        o2 = Angle.of(o)
        if o2 is NotImplemented:
            return False
        same = self.m == o2.m and (self.imag == o2.imag or not self.m)
        if same or CTX is None:
            return same
        d = self - o2
        if d is NotImplemented or d.is_number():
            return False
        return CTX.decide_angle_equal(self, o2)

    def _cmp(self, o, op):
        d = self - Angle.of(o)
        if d is not NotImplemented and d.is_number() and not d.imag:
            return op(d.m.get((), Fraction(0)), 0)
        if CTX is not None and hasattr(CTX, "decide_order"):
            return CTX.decide_order(self, o, op)
        raise Undecided(f"order comparison on symbolic parameter: {self!r} vs {o!r}")

    def __lt__(self, o):
        return self._cmp(o, lambda a, b: a < b)

    def __le__(self, o):
        return self._cmp(o, lambda a, b: a <= b)

    def __gt__(self, o):
        return self._cmp(o, lambda a, b: a > b)

    def __ge__(self, o):
        return self._cmp(o, lambda a, b: a >= b)

    def __ne__(self, o):
        return not self.__eq__(o)

    def __hash__(self):
        return hash((tuple(sorted(self.m.items())), self.imag))

    def __mod__(self, o):
        if self.is_number() and not self.imag:
            return self.m.get((), Fraction(0)) % o
        if CTX is not None and hasattr(CTX, "integer_symbol") and isinstance(o, int) and not self.imag:
            # x % o == x - o*K for the integer K = floor(x / o); K is a fresh integer-valued symbol (see cis())
            return self - o * Angle.sym(CTX.integer_symbol(self, o))
        return UndecidedValue(f"({self!r}) % {o}")

    def __abs__(self):
        if self.is_number() and not self.imag:
            return abs(self.m.get((), Fraction(0)))
        u = UndecidedValue(f"abs({self!r})")
        u.abs_of = self
        return u

    def __float__(self):
        if self.is_number() and not self.imag:
            return float(self.m.get((), 0))
        raise TypeError("symbolic parameter used as a float")

    def __repr__(self):
        s = " + ".join(f"{v}*{'*'.join(k) or '1'}" for k, v in sorted(self.m.items())) or "0"
        return f"{'i*' if self.imag else ''}({s})"

    def atom_env(self, values):
        """numeric angles of the atoms appearing for concrete symbol values (for cross-checks)"""
        return values


class UndecidedValue:
    """Result of an operation whose value depends on the symbolic parameter in a non-polynomial way (e.g. e % 2).
    Any comparison with it is undecided: the harness must split the case instead."""

    abs_of = None

    def __init__(self, what):
        self.what = what

    def _u(self, *a):
        raise Undecided(self.what)

    def __eq__(self, o):
        # `expr % m == c` on a symbolic parameter: true only on a measure-zero family; a context may choose the generic
        # outcome (False) and must then cover the special family by concrete parameter values
        if CTX is not None and hasattr(CTX, "decide_undecided"):
            return CTX.decide_undecided(f"{self.what} == {o!r}")
        raise Undecided(self.what)

    def __ne__(self, o):
        return not self.__eq__(o)

    def _arith(self, *a):
        # |x| - c, -x ... of an undecided value stay undecided (only a later comparison consults the context)
        return UndecidedValue(f"f({self.what})")

    __add__ = __radd__ = __sub__ = __rsub__ = __mul__ = __rmul__ = __neg__ = __abs__ = _arith

    def _ord(self, o):
        if CTX is not None and getattr(self, "abs_of", None) is not None and hasattr(CTX, "decide_abs_order"):
            return CTX.decide_abs_order(self.abs_of, o)
        if CTX is not None and hasattr(CTX, "decide_undecided_order"):
            return CTX.decide_undecided_order(f"{self.what} <=> {o!r}")
        raise Undecided(self.what)

    __lt__ = __le__ = __gt__ = __ge__ = _ord
    __bool__ = _u
    __hash__ = object.__hash__


class Undecided(Exception):
    pass


def matrix_equal(A, B):
    A, B = np.asarray(A, dtype=object), np.asarray(B, dtype=object)
    if A.shape != B.shape:
        return False, f"shape {A.shape} vs {B.shape}"
    for idx in np.ndindex(A.shape):
        a, b = _lift(A[idx]), _lift(B[idx])
        if a is NotImplemented or b is NotImplemented or not a.same(b):
            return False, f"entry {idx}: {A[idx]!r} != {B[idx]!r}"
    return True, ""


def numeric(M, values):
    """evaluate an object matrix at concrete parameter values {symbol: float}; pi is bound automatically"""
    vals = dict(values)
    vals["pi"] = math.pi

    def atom_angle(name):
        prod = 1.0
        for s in name.split("*"):
            prod *= vals[s]
        return prod / D

    M = np.asarray(M, dtype=object)
    out = np.zeros(M.shape, dtype=complex)
    for idx in np.ndindex(M.shape):
        x = _lift(M[idx])
        env = {a: atom_angle(a) for k in x.t for a, _ in k}
        out[idx] = x.evaluate(env)
    return out
