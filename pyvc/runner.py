"""Per-property orchestration: deductive obligations, engine checks, replay, stand-ins, canaries, evidence."""
from __future__ import annotations

import glob
import hashlib
import importlib
import json
import multiprocessing as mp
import os
import re
import sys
import time
import traceback

VERIF = os.path.dirname(os.path.dirname(os.path.abspath(__file__)))
sys.path.insert(0, VERIF)
# development aid (mutation sweeps run several checks at once): where evidence/ and replays/ are written; registered commands never set it
OUT = os.environ.get("VERIF_OUT", VERIF)

from . import api, native  # noqa: E402

TRUSTED_BASE = [
    "pyvc VC generator (/verif/pyvc): AST interpreter + symbolic values; CPython evaluation order and short-circuiting",
    "Python int = mathematical integer; // and % floor semantics; <<,>>,&,| modelled via *2**k, div/mod 2**k",
    "float treated as mathematical real wherever an obligation mentions reals (float-as-real)",
    "z3 4.x/5.1 (primary) and cvc5 1.0.3 CLI (fallback for z3 `unknown`) are sound",
    "library models in pyvc/models.py (len, range, zip, enumerate, reversed, min/max, all/any, tuple/list, isinstance)",
    "extraction drops only docstrings, annotations and allow-listed decorators (listed per function)",
]


def load_modules():
    mods = {}
    for fn in sorted(glob.glob(os.path.join(VERIF, "contracts", "C*.py"))):
        name = "contracts." + os.path.basename(fn)[:-3]
        mods[name] = importlib.import_module(name)
    return mods


FUNCTION_BUDGET_S = int(os.environ.get("PYVC_FUNCTION_BUDGET_S", "900" if os.environ.get("VERIF_TIER") == "thorough" else "240"))


class _Budget(Exception):
    pass


def _alarm(signum, frame):
    raise _Budget()


def _verify_key(key):
    import signal

    if key.startswith("lemma:"):
        return api.LEMMAS[key[6:]].verify()
    c = api.REGISTRY[key]
    try:
        signal.signal(signal.SIGALRM, _alarm)
        signal.alarm(FUNCTION_BUDGET_S)
        try:
            rep = api.verify(c)
        finally:
            signal.alarm(0)
    except _Budget:
        rep = api.FunctionReport(c, None)
        rep.status, rep.out_of_reach = "out-of-reach", f"wall-clock budget of {FUNCTION_BUDGET_S}s per function exceeded"
    except Exception as e:  # checker crash
        rep = api.FunctionReport(c, None)
        rep.status, rep.error = "error", traceback.format_exc()[-800:]
    return rep


def _run_engine_check(item):
    modname, idx = item
    mod = importlib.import_module(modname)
    try:
        return mod.ENGINE_CHECKS[idx]()
    except Exception:
        r = api.FunctionReport.__new__(api.FunctionReport)
        r.key, r.prop, r.sha, r.dropped, r.obligations = f"{modname}.ENGINE_CHECKS[{idx}]", "", None, [], []
        r.status, r.out_of_reach, r.error, r.paths, r.wall, r.cases, r.trace = "error", None, traceback.format_exc()[-1500:], 0, 0.0, [], set()
        return [r]


def _slug(s):
    return re.sub(r"[^A-Za-z0-9_.-]+", "_", s)[:120]


class Result:
    def __init__(self, pid, tier, seed):
        self.pid, self.tier, self.seed = pid, tier, seed
        self.reports = []
        self.standins = []
        self.violations = []  # dicts: function, obligation, replay, reproduced, info
        self.known = []
        self.undecided = []
        self.errors = []
        self.canaries = dict(applied=0, killed=0, survivors=[])
        self.t0 = time.time()


def write_replay(pid, function, obligation, payload):
    os.makedirs(os.path.join(OUT, "replays"), exist_ok=True)
    h = hashlib.sha1((function + obligation + json.dumps(payload, sort_keys=True, default=str)).encode()).hexdigest()[:8]
    path = os.path.join("replays", f"{pid}_{_slug(function.split(':')[-1])}_{h}.json")
    with open(os.path.join(OUT, path), "w") as f:
        json.dump(payload, f, indent=1, default=str)
    return path


def load_known():
    p = os.path.join(VERIF, "known_findings.json")
    if not os.path.exists(p):
        return []
    return json.load(open(p)).get("findings", [])


def match_known(pid, function, info):
    """A known finding suppresses only the specific failure it describes: same property and function, and either the
    exact failing arguments (match_args) or the failure signature (match: failed / clause_contains / arg_prefix)."""
    for k in load_known():
        if k.get("status") != "known" or k.get("property") != pid or k.get("function") != function:
            continue
        if "match_args" in k:
            if info and info.get("args") == k["match_args"]:
                return k
            continue
        m = k.get("match")
        if m is None or info is None:
            continue
        if m.get("failed") and info.get("failed") != m["failed"]:
            continue
        if m.get("clause_contains") and m["clause_contains"] not in str(info.get("clause", "")):
            continue
        ok = True
        for arg, prefix in m.get("arg_prefix", {}).items():
            if not str((info.get("args") or {}).get(arg, "")).startswith(prefix):
                ok = False
        for arg, sub in m.get("arg_contains", {}).items():
            if sub not in str((info.get("args") or {}).get(arg, "")):
                ok = False
        if ok:
            return k
    return None


def triage(res: Result, rep, budget_cases=4000):
    """Turn failed obligations of one function into violation / undecided records."""
    c = api.REGISTRY.get(rep.key)
    failed = [o for o in rep.obligations if o.status == "failed"]
    unknown = [o for o in rep.obligations if o.status == "unknown"]
    if not failed and not unknown:
        return
    sat_failed = list(failed)
    failed = failed + unknown  # an undischarged obligation: look for a concrete failing input either way
    post_like = [o for o in sat_failed if o.kind in ("post", "exc", "call-pre", "assert", "frame", "pre-sat", "engine")]
    reproduced = None
    if c is not None:
        fn = None
        try:
            fn = native.real_function(c)
        except Exception:
            pass
        cases = {cs.name: cs for cs in c.cases}
        for o in failed:
            cs = cases.get(o.case) or c.cases[0]
            if o.concrete is not None:
                verdict, info = native.check_once(c, cs, o.concrete, fn)
                if verdict == "violation":
                    reproduced = (o, info, "solver counter-model replayed on the real function")
                    break
        if reproduced is None:
            for cs in c.cases:
                if cs.gen is None:
                    continue
                n = 0
                for args in cs.gen("thorough", res.seed):
                    n += 1
                    if n > budget_cases:
                        break
                    verdict, info = native.check_once(c, cs, args, fn)
                    if verdict == "violation":
                        o = next((x for x in failed if x.case == cs.name), failed[0])
                        reproduced = (o, info, f"bounded search around the failed obligation (case {n} of the stand-in enumeration)")
                        break
                if reproduced:
                    break
    if reproduced is None:
        # engine reports / abstract-sort contracts (no single function contract): module-provided replayers turn the obligation into a concrete input
        for mod in load_modules().values():
            for prefix, fn in getattr(mod, "REPLAYERS", {}).items():
                if rep.key.startswith(prefix):
                    for o in failed:
                        info = fn(o, res.seed)
                        if info:
                            reproduced = (o, info, "module replayer: bounded search guided by the failed obligation")
                            break
                if reproduced:
                    break
            if reproduced:
                break
    if reproduced:
        o, info, how = reproduced
        payload = dict(property=res.pid, obligation=o.name, function=rep.key, source_sha256=rep.sha, backend=o.backend,
                       solver_output=o.model_text, concrete_call=info, verdict="reproduced", how_found=how,
                       failed_clause=info.get("clause"), how_to_rerun=f"./check {res.pid} --replay <this file>")
        k = match_known(res.pid, rep.key, info)
        if k:
            res.known.append(dict(function=rep.key, what=k.get("description", ""), obligation=o.name))
            return
        path = write_replay(res.pid, rep.key, o.name, payload)
        res.violations.append(dict(function=rep.key, obligation=o.name, replay=path, reproduced=True, info=info))
        return
    if post_like:
        o = post_like[0]
        k = match_known(res.pid, rep.key, None)
        if k:
            res.known.append(dict(function=rep.key, what=k.get("description", ""), obligation=o.name))
            return
        payload = dict(property=res.pid, obligation=o.name, function=rep.key, source_sha256=rep.sha, backend=o.backend,
                       solver_output=o.model_text, goal=o.detail, all_failed=[x.name for x in failed],
                       verdict="no-failing-input-found",
                       note="obligation is discharged on the pinned tree and has a counter-model on this tree; "
                            "no concrete failing input was found by model replay or the bounded stand-in")
        path = write_replay(res.pid, rep.key, o.name, payload)
        res.violations.append(dict(function=rep.key, obligation=o.name, replay=path, reproduced=False, info=None))
    else:
        for o in failed:
            res.undecided.append(dict(function=rep.key, obligation=o.name,
                                      reason=("solver returned unknown on all back ends" if o.status == "unknown" else
                                              "proof scaffolding (invariant/lemma) has a counter-model") +
                                             "; no failing input found by model replay or the bounded stand-in"))


def run_standins(res: Result, contracts, mods, tier):
    """Bounded stand-ins: native contract evaluation on enumerated inputs. Never counted as proved."""
    for c in contracts:
        try:
            fn = native.real_function(c)
        except Exception as e:
            res.errors.append(f"stand-in: cannot load {c.key}: {e}")
            continue
        for cs in c.cases:
            if cs.gen is None:
                continue
            cases = ok = skip = 0
            seen = set()
            fails = []
            t0 = time.time()
            for args in cs.gen(tier, res.seed):
                cases += 1
                verdict, info = native.check_once(c, cs, args, fn)
                if verdict == "ok":
                    ok += 1
                    seen.add(repr(info["args"]))
                elif verdict == "skip":
                    skip += 1
                elif verdict == "error":
                    res.errors.append(f"stand-in {c.key}[{cs.name}]: {info}")
                    break
                else:
                    fails.append(info)
                    if len(fails) >= 3:
                        break
            res.standins.append(dict(function=c.key, case=cs.name, bound=getattr(cs.gen, "bound", "see generator"),
                                     cases=cases, in_domain=ok + len(fails), distinct=len(seen), skipped=skip,
                                     failures=len(fails), wall_s=round(time.time() - t0, 2),
                                     exhaustive=bool(getattr(cs.gen, "exhaustive", False)), _fails=fails))
    for modname, mod in mods.items():
        for f in getattr(mod, "STANDINS", []):
            if getattr(f, "prop", res.pid) != res.pid:
                continue
            t0 = time.time()
            import signal

            budget = int(os.environ.get("PYVC_STANDIN_BUDGET_S", "900" if tier == "thorough" else "180"))
            try:
                signal.signal(signal.SIGALRM, _alarm)
                signal.alarm(budget)
                try:
                    r = f(tier, res.seed)
                finally:
                    signal.alarm(0)
            except _Budget:
                res.errors.append(f"stand-in {modname}.{f.__name__} exceeded its wall-clock budget of {budget}s")
                continue
            except Exception as ex:
                # Where did it come from?  An exception raised INSIDE the code under test (innermost frame in the repository tree), on inputs
                # for which the same seeded stand-in completes on the unchanged tree, is an observation about that code: the public call failed
                # instead of returning the right answer.  Anything raised in /verif itself is a fault of the checker.
                tb = traceback.extract_tb(ex.__traceback__)
                repo = os.path.realpath(api.REPO) + os.sep
                # (frames of third-party libraries at the end of the stack are skipped: numpy raising on a NaN probability that the code under
                #  test handed to it is raised "inside" that code; the deepest frame that belongs to /repo or to /verif decides)
                verif_root = os.path.realpath(VERIF) + os.sep
                blame_caller = type(ex).__name__ == "InvalidDistribution"  # the scripted random source refusing what numpy would refuse
                inner = next((fr for fr in reversed(tb) if os.path.realpath(fr.filename).startswith((repo, verif_root))
                              and not (blame_caller and fr.filename.endswith("scripted_rng.py"))), None)
                in_repo = inner is not None and os.path.realpath(inner.filename).startswith(repo)
                if not in_repo:
                    res.errors.append(f"stand-in {modname}.{f.__name__} crashed: {traceback.format_exc()[-600:]}")
                    continue
                where = next((fr for fr in reversed(tb) if os.path.realpath(fr.filename).startswith(os.path.realpath(VERIF) + os.sep)), None)
                r = dict(function=f"{modname}.{f.__name__}[calls into {os.path.relpath(os.path.realpath(inner.filename), repo)}]", case="raised", cases=1, distinct=1, failures=1,
                         exhaustive=False, bound="the stand-in's seeded inputs (it completes on the unchanged tree)",
                         _fails=[dict(args=dict(standin=f"{modname}.{f.__name__}", raised_in=f"{os.path.relpath(os.path.realpath(inner.filename), repo)}:{inner.lineno} ({inner.name})",
                                                called_from=(f"{os.path.relpath(where.filename, VERIF)}:{where.lineno}" if where else None), tier=tier, seed=res.seed),
                                      failed="real-code-raised", clause=f"{type(ex).__name__}: {str(ex)[:300]} — raised inside the code under test on an input the stand-in handles on the unchanged tree")])
            r.setdefault("wall_s", round(time.time() - t0, 2))
            r.setdefault("_fails", [])
            res.standins.append(r)


def run_canaries(res: Result, mods):
    for modname, mod in mods.items():
        for can in getattr(mod, "CANARIES", []):
            if can.get("prop", res.pid) != res.pid:
                continue
            res.canaries["applied"] += 1
            path = os.path.join(api.REPO, can["file"])
            src = open(path).read()
            if src.count(can["find"]) != 1:
                res.canaries["survivors"].append(dict(canary=can["name"], reason="anchor text not found exactly once (source changed)"))
                res.canaries["applied"] -= 1
                continue
            api.SOURCE_OVERRIDES[can["file"]] = src.replace(can["find"], can["replace"])
            restore = None
            try:
                if "engine_check" in can:
                    if can.get("native", True):
                        restore, n = native.patch_module_functions(can["file"], api.SOURCE_OVERRIDES[can["file"]])
                    reps = mod.ENGINE_CHECKS[can["engine_check"]]()
                else:
                    reps = [api.verify(api.REGISTRY[can["function"]])]
                # killed = the change does not verify any more (failed / undecided obligation, or the function left the
                # verified fragment, in which case the bounded stand-in would have to decide)
                killed = any(o.status != "proved" for r in reps for o in r.obligations) or any(r.status != "proved" for r in reps)
            finally:
                del api.SOURCE_OVERRIDES[can["file"]]
                if restore:
                    restore()
            if killed:
                res.canaries["killed"] += 1
            else:
                res.canaries["survivors"].append(dict(canary=can["name"], reason="all obligations still discharged"))


def run_property(pid, tier="quick", seed=0, jobs=None, level="proof", replay=None):
    res = Result(pid, tier, seed)
    for old in glob.glob(os.path.join(OUT, "replays", f"{pid}_*.json")):
        os.unlink(old)
    mods = load_modules()
    propmods = {n: m for n, m in mods.items() if n.split(".")[-1].startswith(pid + "_")}
    contracts = [c for c in api.REGISTRY.values() if c.prop == pid]
    jobs = jobs or min(16, os.cpu_count() or 4)
    engine_items = [(n, i) for n, m in propmods.items() for i in range(len(getattr(m, "ENGINE_CHECKS", [])))]
    keys = [c.key for c in contracts] + [l.key for l in api.LEMMAS.values() if l.prop == pid]
    with mp.get_context("fork").Pool(jobs) as pool:
        a1 = pool.map_async(_verify_key, keys, chunksize=1)
        a2 = pool.map_async(_run_engine_check, engine_items, chunksize=1)
        reports = a1.get()
        for lst in a2.get():
            reports.extend(lst)
    res.reports = reports
    for rep in reports:
        if rep.status == "error":
            res.errors.append(f"{rep.key}: {rep.error}")
        triage(res, rep)
    run_standins(res, contracts, propmods, tier)
    for s in res.standins:
        for info in s["_fails"]:
            key = s["function"]
            k = match_known(pid, key, info)
            if k:
                if not any(x["what"] == k.get("description", "") for x in res.known):
                    res.known.append(dict(function=key, what=k.get("description", ""), obligation=info.get("failed")))
                continue
            if any(v["function"] == key for v in res.violations):
                continue
            rep = next((r for r in reports if r.key == key), None)
            if rep is not None and rep.status == "proved":
                res.errors.append(f"UNSOUND-ENGINE? {key}: all obligations discharged but CPython finds a counterexample {info}")
                continue
            payload = dict(property=pid, obligation=f"{pid}/{key}#bounded.{info.get('failed')}", function=key, concrete_call=info, tier=tier, seed=seed,
                           verdict="reproduced", how_found="bounded stand-in", failed_clause=info.get("clause"), how_to_rerun=f"./check {pid} --replay <this file>")
            path = write_replay(pid, key, str(info.get("failed")), payload)
            res.violations.append(dict(function=key, obligation=payload["obligation"], replay=path, reproduced=True, info=info))
    if tier == "thorough":
        run_canaries(res, propmods)
        if res.canaries["survivors"]:
            res.errors.append(f"canaries survived: {res.canaries['survivors']}")
    write_evidence(res, propmods, level)
    for k in res.known:
        print(f"KNOWN-FINDING: property={pid} {k['function']} {k['what']}")
    for v in res.violations:
        tail = "" if v["reproduced"] else " no-failing-input-found"
        print(f"VIOLATION property={pid} replay={v['replay']} obligation={v['obligation']}{tail}" if v["reproduced"] else
              f"VIOLATION property={pid} replay={v['replay']} obligation={v['obligation']} no-failing-input-found")
    nob = sum(len(r.obligations) for r in reports)
    ndis = sum(sum(o.status == "proved" for o in r.obligations) for r in reports)
    print(f"[{pid}] tier={tier} functions={len(reports)} obligations={nob} discharged={ndis} "
          f"standin_cases={sum(s.get('cases', 0) for s in res.standins)} violations={len(res.violations)} "
          f"undecided={len(res.undecided)} errors={len(res.errors)} wall={time.time() - res.t0:.1f}s")
    if res.violations:
        return 1
    if res.errors:
        for e in res.errors:
            print("CHECKER-ERROR:", str(e)[:1500])
        return 3
    if res.undecided:
        for u in res.undecided:
            print("UNDECIDED:", u)
        return 2
    if nob == 0:
        print("CHECKER-ERROR: zero obligations")
        return 3
    return 0


def write_evidence(res: Result, propmods, level):
    reports = res.reports
    obls = [o for r in reports for o in r.obligations]
    by_backend = {}
    for o in obls:
        if o.status == "proved":
            b = o.backend.split("(")[0]
            by_backend[b] = by_backend.get(b, 0) + 1
    samples = []
    for r in reports[:6]:
        for o in r.obligations[:3]:
            samples.append(dict(obligation=o.name, kind=o.kind, status=o.status, backend=o.backend, ms=round(o.ms, 2)))
    not_covered, assumptions, explanation = [], [], ""
    for m in propmods.values():
        not_covered += getattr(m, "NOT_COVERED", [])
        assumptions += getattr(m, "ASSUMPTIONS", [])
        explanation += getattr(m, "EXPLANATION", "")
    for r in reports:
        for t in r.trace:
            if t.startswith("call-by-contract"):
                pass
    standins = [{k: v for k, v in s.items() if not k.startswith("_")} for s in res.standins]
    cov = dict(
        obligations=len(obls),
        discharged=sum(o.status == "proved" for o in obls),
        checker_cmd=f"./check {res.pid} --tier {res.tier}",
        trusted_base=TRUSTED_BASE,
        samples=samples or [dict(note="no obligations")],
        explanation=explanation or "contract-based deductive verification of the listed functions; see functions_under_contract",
        functions_under_contract=[r.to_json() for r in reports],
        functions_proved=sum(r.status == "proved" for r in reports),
        functions_out_of_reach=[dict(function=r.key, reason=r.out_of_reach) for r in reports if r.status == "out-of-reach"],
        by_backend=by_backend,
        solver_time_s=round(sum(o.ms for o in obls) / 1000.0, 3),
        bounded_standins=standins,
        evaluations=sum(s.get("cases", 0) for s in standins),
        distinct_nontrivial=sum(s.get("distinct", 0) for s in standins),
        rule="bounded stand-ins only (never counted as proved): inputs enumerated per generator bound; distinct = distinct in-domain "
             "argument tuples on which the real function ran and the executable contract was evaluated",
        canaries=res.canaries,
        not_covered=not_covered,
        undecided=res.undecided,
        known_findings=res.known,
    )
    ev = dict(property_id=res.pid, tier=res.tier, seed=res.seed, level=level, coverage=cov,
              assumptions=sorted(set(assumptions)), wall_s=round(time.time() - res.t0, 2), violations=len(res.violations))
    os.makedirs(os.path.join(OUT, "evidence"), exist_ok=True)
    with open(os.path.join(OUT, "evidence", f"{res.pid}.json"), "w") as f:
        json.dump(ev, f, indent=1, default=str)


def _replay_by_reevaluation(pid, payload):
    mods = {n: m for n, m in load_modules().items() if n.split(".")[-1].startswith(pid + "_")}
    name = payload.get("obligation", "")
    print(json.dumps({k: v for k, v in payload.items() if k != "solver_output"}, indent=1, default=str)[:2500])
    if "#bounded." in name:
        kind = name.split("#bounded.", 1)[1]
        tier, seed = payload.get("tier", "quick"), int(payload.get("seed", 0))
        for m in mods.values():
            for f in getattr(m, "STANDINS", []):
                try:
                    r = f(tier, seed)
                except Exception as ex:
                    print(f"replay: stand-in {f.__name__} crashed: {ex!r}")
                    continue
                if r.get("function") != payload.get("function"):
                    continue
                hits = [x for x in r.get("_fails", []) if x.get("failed") == kind]
                if hits:
                    print("replay: REPRODUCED by re-running the bounded stand-in", f.__name__, json.dumps(hits[0], default=str)[:1200])
                    return 1
                print(f"replay: stand-in {f.__name__} re-run ({r.get('cases')} cases): no failure of kind {kind!r} on the current tree")
                return 0
        print("replay: stand-in not found")
        return 1
    for m in mods.values():
        for chk in getattr(m, "ENGINE_CHECKS", []):
            try:
                reps = chk()
            except Exception as ex:
                print(f"replay: engine check crashed: {ex!r}")
                continue
            for rep in reps:
                for o in rep.obligations:
                    if o.name == name:
                        if o.status == "proved":
                            print("replay: the obligation is discharged on the current tree (not reproduced)")
                            return 0
                        print(f"replay: REPRODUCED - obligation {o.status} on the current tree: {o.detail[:800]}")
                        return 1
    print("replay: obligation not found among the engine checks of this property")
    return 1


def replay_file(pid, path):
    payload = json.load(open(path))
    key = payload["function"]
    load_modules()
    c = api.REGISTRY.get(key)
    call = payload.get("concrete_call")
    if c is None:
        # engine obligations and bounded stand-ins have no single-function native form: replay = re-evaluate the named obligation
        # (or re-run the stand-in) on the current tree
        return _replay_by_reevaluation(pid, payload)
    if not call:
        print(json.dumps(payload, indent=1)[:3000])
        print("replay: no concrete call recorded (no-failing-input-found); the obligation and solver output are above")
        return 1
    args = call["args"]
    try:
        import ast as _ast

        args = _ast.literal_eval(call["args_py"])
    except Exception:
        pass
    for cs in c.cases:
        try:
            args2 = cs.from_json(args) if getattr(cs, "from_json", None) else args
            verdict, info = native.check_once(c, cs, args2)
        except Exception:
            continue
        if verdict == "violation":
            print("replay: REPRODUCED", json.dumps(info, default=str)[:1500])
            return 1
    print("replay: not reproduced on the current tree")
    return 0
