"""Models of builtins / library functions on symbolic values.

Each model is `m(interp, args, kwargs) -> value | NotImplemented`.  NotImplemented falls through to
the native call.  Every model listed here is part of the trusted base (library semantics assumed);
`scripts/conformance.py` cross-checks them against CPython on small concrete inputs.
"""
from __future__ import annotations

import builtins
import itertools
import typing

import z3

from . import paths, sym
from .sym import OutOfReach, SBool, SInt, SList, SMap, SObj, SReal, SSeq, SSet, SGen, Sym, wrap

_MODELS: dict = {}
_METHOD_MODELS: dict = {}


def model(*fns):
    def deco(f):
        for fn in fns:
            _MODELS[_key(fn)] = f
        return f

    return deco


def _key(fn):
    try:
        hash(fn)
        return fn
    except TypeError:
        return id(fn)


def lookup(fn):
    try:
        return _MODELS.get(fn)
    except TypeError:
        return None


def lookup_method(fn):
    return None


def rep_type(x):
    from .interp import SRange, SRec, LazyGen, SIter

    if isinstance(x, SBool):
        return bool
    if isinstance(x, SInt):
        return int
    if isinstance(x, SReal):
        return float
    if isinstance(x, SSeq):
        return x.pytype
    if isinstance(x, SList):
        return list
    if isinstance(x, SMap):
        return dict
    if isinstance(x, SSet):
        return frozenset
    if isinstance(x, SRange):
        return range
    if isinstance(x, SRec):
        return object.__getattribute__(x, "_cls")
    if isinstance(x, SObj):
        cls = SObj.PYCLASS.get(x.sortname) if hasattr(SObj, "PYCLASS") else None
        if cls is None:
            raise OutOfReach(f"type test on abstract {x.sortname}")
        return cls
    if isinstance(x, (LazyGen, SGen, SIter)):
        import types

        return types.GeneratorType
    return type(x)


@model(builtins.isinstance)
def m_isinstance(interp, args, kwargs):
    x, T = args
    if isinstance(x, Sym) or type(x).__name__ in ("LazyGen",):
        h = interp.hooks.get("isinstance")
        if h is not None:
            r = h(interp, x, T)
            if r is not NotImplemented:
                return r
        return issubclass(rep_type(x), T)
    return NotImplemented


@model(builtins.type)
def m_type(interp, args, kwargs):
    if len(args) == 1 and isinstance(args[0], Sym):
        return rep_type(args[0])
    return NotImplemented


@model(builtins.len)
def m_len(interp, args, kwargs):
    (x,) = args
    if hasattr(x, "length") and isinstance(x, Sym):
        return x.length()
    if isinstance(x, Sym):
        raise OutOfReach(f"len() of {type(x).__name__}")
    return NotImplemented


@model(builtins.range)
def m_range(interp, args, kwargs):
    from .interp import SRange

    if any(isinstance(a, Sym) for a in args):
        a = [SInt(sym.as_int_term(x)) if isinstance(x, SBool) else x for x in args]
        if len(a) == 1:
            return SRange(0, a[0], 1)
        if len(a) == 2:
            return SRange(a[0], a[1], 1)
        return SRange(a[0], a[1], a[2])
    return NotImplemented


def _materialize(interp, x, pytype):
    from .interp import LazyGen, SIter, SRange, sym_iter

    if isinstance(x, LazyGen):
        return interp.comprehension_value(x.node, x.env, pytype)
    if isinstance(x, SSeq):
        return x.as_pytype(pytype) if pytype is tuple else SList(x)
    if isinstance(x, SList):
        return x.v.as_pytype(tuple) if pytype is tuple else SList(x.v)
    si = sym_iter(x)
    if si is not None:
        j = z3.Int(sym.fresh_name("j"))
        with interp.scope(z3.And(0 <= j, j < si.n)):
            v = si.getter(SInt(j))
        if isinstance(v, tuple):
            raise OutOfReach("materialising a symbolic sequence of tuples")
        kind = sym.kind_of_value(v)
        s = SSeq(z3.simplify(si.n), z3.Lambda([j], sym._elem_term(v, kind)), kind, pytype)
        return s if pytype is tuple else SList(s)
    return NotImplemented


@model(builtins.tuple)
def m_tuple(interp, args, kwargs):
    if not args:
        return ()
    return _materialize(interp, args[0], tuple)


@model(builtins.list)
def m_list(interp, args, kwargs):
    if not args:
        return []
    return _materialize(interp, args[0], list)


@model(builtins.zip)
def m_zip(interp, args, kwargs):
    from .interp import SIter, sym_iter

    if not any(sym_iter(a) is not None for a in args):
        if any(type(a).__name__ == "LazyGen" for a in args):
            return zip(*[list(a) for a in args])
        return NotImplemented
    its = []
    for a in args:
        si = sym_iter(a)
        if si is None:
            vals = list(a)
            s = SSeq.from_values(vals)
            si = SIter(s.n, s.at)
        its.append(si)
    n = its[0].n
    for si in its[1:]:
        n = z3.If(si.n < n, si.n, n)
    n = z3.simplify(n)
    strict = kwargs.get("strict", False)
    if strict:
        for si in its[1:]:
            paths.current().require(si.n == its[0].n, "safe.zip-strict", exc="ValueError")
    return SIter(n, lambda k: tuple(si.getter(k) for si in its))


@model(builtins.enumerate)
def m_enumerate(interp, args, kwargs):
    from .interp import SIter, sym_iter

    si = sym_iter(args[0])
    if si is None:
        return NotImplemented
    start = args[1] if len(args) > 1 else kwargs.get("start", 0)
    return SIter(si.n, lambda k: (k + start, si.getter(k)))


@model(builtins.reversed)
def m_reversed(interp, args, kwargs):
    from .interp import SIter, SRange, sym_iter

    x = args[0]
    if isinstance(x, SSeq):
        return x.reversed()
    if isinstance(x, SList):
        return x.v.reversed()
    if isinstance(x, SRange):
        return x[::-1]
    si = sym_iter(x)
    if si is not None:
        return SIter(si.n, lambda k: si.getter(wrap(si.n - 1 - sym.as_int_term(k))))
    return NotImplemented


@model(builtins.int)
def m_int(interp, args, kwargs):
    if len(args) == 1 and isinstance(args[0], SInt):
        return args[0]
    if len(args) == 1 and isinstance(args[0], SBool):
        return wrap(sym.as_int_term(args[0]))
    if len(args) == 1 and isinstance(args[0], SReal):
        raise OutOfReach("int() of symbolic real")
    return NotImplemented


@model(builtins.bool)
def m_bool(interp, args, kwargs):
    if len(args) == 1 and isinstance(args[0], Sym):
        t = interp.truth_term(args[0])
        return t if isinstance(t, bool) else wrap(t)
    return NotImplemented


@model(builtins.float)
def m_float(interp, args, kwargs):
    if len(args) == 1 and isinstance(args[0], (SInt, SReal)):
        t = args[0].e
        return SReal(z3.ToReal(t) if z3.is_int(t) else t)
    return NotImplemented


@model(builtins.abs)
def m_abs(interp, args, kwargs):
    return NotImplemented


def _quantify(interp, gen, kind):
    """all()/any() over a generator expression whose (single) iterable has symbolic length."""
    from .interp import Env, LazyGen, sym_iter

    node, env = gen.node, gen.env
    if len(node.generators) != 1:
        return None
    g = node.generators[0]
    it = gen.first if getattr(gen, "first", None) is not None else interp.eval(g.iter, env)
    si = sym_iter(it)
    if si is None:
        return ("concrete", it)
    from .interp import SRange

    j = z3.Int(sym.fresh_name("q"))
    sub = Env({}, env)
    if isinstance(it, SRange) and it.step == 1:
        # quantify over the index value itself (start <= j < stop): keeps `a[j]` free of arithmetic, so that the
        # solver's pattern-based instantiation can match any ground index term
        rng = z3.And(sym.as_int_term(it.start) <= j, j < sym.as_int_term(it.stop))
        item = SInt(j)
    else:
        rng = z3.And(0 <= j, j < si.n)
        item = None
    with interp.scope(rng):
        interp.bind_target(g.target, item if item is not None else si.getter(SInt(j)), sub)
        conds = [rng]
        for c in g.ifs:
            with interp.scope(z3.And(*conds)):
                conds.append(interp._as_term(interp.truth_term(interp.eval(c, sub))))
        with interp.scope(z3.And(*conds)):
            interp.pure += 1
            try:
                body = interp._as_term(interp.truth_term(interp.eval(node.elt, sub)))
            finally:
                interp.pure -= 1
    guard = z3.And(*conds)
    if kind == "all":
        return ("term", z3.ForAll([j], z3.Implies(guard, body)))
    return ("term", z3.Exists([j], z3.And(guard, body)))


@model(builtins.all, builtins.any)
def m_all_any(interp, args, kwargs, _which=None):
    raise RuntimeError("replaced below")


def _mk_all_any(kind):
    def m(interp, args, kwargs):
        from .interp import LazyGen

        (x,) = args
        if isinstance(x, SGen):
            ts = []
            for bound, member, v in x.parts:
                body = interp._as_term(interp.truth_term(v))
                ts.append(z3.ForAll([bound], z3.Implies(member, body)) if kind == "all" else z3.Exists([bound], z3.And(member, body)))
            for sc in x.scalars:
                ts.append(interp._as_term(interp.truth_term(sc)))
            if not ts:
                return kind == "all"
            return wrap(z3.And(*ts) if kind == "all" else z3.Or(*ts))
        if isinstance(x, LazyGen):
            r = _quantify(interp, x, kind)
            if r is None:
                return NotImplemented if not interp.pure else _fold_bool(interp, list(x), kind)
            if r[0] == "term":
                return wrap(r[1])
            items = interp._iterate_from(x.node, x.env, r[1])
            if interp.pure:
                return _fold_bool(interp, items, kind)
            return (builtins.all if kind == "all" else builtins.any)(interp.truth(v) for v in items)
        if isinstance(x, (SSeq, SList)):
            s = sym.seq_of(x)
            j = z3.Int(sym.fresh_name("q"))
            body = interp._as_term(interp.truth_term(s.at(SInt(j))))
            rng = z3.And(0 <= j, j < s.n)
            return wrap(z3.ForAll([j], z3.Implies(rng, body)) if kind == "all" else z3.Exists([j], z3.And(rng, body)))
        if interp.pure and sym.contains_sym(x):
            return _fold_bool(interp, list(x), kind)
        if sym.contains_sym(x):
            return (builtins.all if kind == "all" else builtins.any)(interp.truth(v) for v in x)
        return NotImplemented

    return m


def _fold_bool(interp, items, kind):
    ts = []
    for v in items:
        t = interp.truth_term(v)
        if isinstance(t, bool):
            if kind == "all" and not t:
                return False
            if kind == "any" and t:
                return True
            continue
        ts.append(t)
    if not ts:
        return kind == "all"
    return wrap(z3.And(*ts) if kind == "all" else z3.Or(*ts))


_MODELS[builtins.all] = _mk_all_any("all")
_MODELS[builtins.any] = _mk_all_any("any")


def _scalar_max(interp, a, b, is_max):
    t = (a >= b) if is_max else (a <= b)
    tt = interp.truth_term(t)
    if isinstance(tt, bool):
        return a if tt else b
    return interp.ite(tt, a, b)


def _mk_minmax(is_max):
    def m(interp, args, kwargs):
        from .interp import LazyGen

        if "key" in kwargs:
            return NotImplemented
        # flatten: max(a, *bag) arrives as args containing SGen items; max([..]) / max(gen) as a single iterable
        items = list(args)
        if len(items) == 1:
            x = items[0]
            if isinstance(x, LazyGen):
                x = list(x)
            if isinstance(x, (SSeq, SList)):
                raise OutOfReach("max over symbolic-length sequence")
            if isinstance(x, SGen):
                items = [x]
            elif isinstance(x, (list, tuple)):
                if not sym.contains_sym(x):
                    return NotImplemented
                items = list(x)
            else:
                return NotImplemented
            single_iterable = True
        else:
            single_iterable = False
            if not sym.contains_sym(items):
                return NotImplemented
        parts, scalars = [], []
        for it in items:
            if isinstance(it, SGen):
                parts.extend(it.parts)
                scalars.extend(it.scalars)
            else:
                scalars.append(it)
        if parts:
            return _extremum_over_sets(interp, parts, scalars, kwargs, is_max)
        if not scalars:
            if "default" in kwargs:
                return kwargs["default"]
            raise ValueError("max() of empty sequence")
        r = scalars[0]
        for v in scalars[1:]:
            r = _scalar_max(interp, r, v, is_max)
        return r

    return m


def _extremum_over_sets(interp, parts, scalars, kwargs, is_max):
    """m = max( { v(x) | member(x) } for each part  ∪  scalars ); fresh m + its defining axioms."""
    p = paths.current()
    m = sym.fresh_int("max" if is_max else "min")
    bounds, witnesses, nonempty = [], [], []
    for bound, member, v in parts:
        vt = sym.as_int_term(v)
        bounds.append(z3.ForAll([bound], z3.Implies(member, (vt <= m.e) if is_max else (vt >= m.e))))
        witnesses.append(z3.Exists([bound], z3.And(member, vt == m.e)))
        nonempty.append(z3.Exists([bound], member))
    for sc in scalars:
        st = sym.as_int_term(sc)
        bounds.append((st <= m.e) if is_max else (st >= m.e))
        witnesses.append(st == m.e)
    p.quantified = True
    if scalars:
        p.assume(z3.And(*bounds))
        p.assume(z3.Or(*witnesses))
        return m
    any_elem = z3.Or(*nonempty)
    if "default" not in kwargs:
        p.require(any_elem, "safe.max-nonempty", exc="ValueError")
        p.assume(z3.And(*bounds))
        p.assume(z3.Or(*witnesses))
        return m
    d = sym.as_int_term(kwargs["default"])
    p.assume(z3.Implies(any_elem, z3.And(z3.And(*bounds), z3.Or(*witnesses))))
    p.assume(z3.Implies(z3.Not(any_elem), m.e == d))
    return m


_MODELS[builtins.max] = _mk_minmax(True)
_MODELS[builtins.min] = _mk_minmax(False)


@model(builtins.sum)
def m_sum(interp, args, kwargs):
    from .interp import LazyGen

    x = args[0]
    start = args[1] if len(args) > 1 else kwargs.get("start", 0)
    if isinstance(x, LazyGen):
        x = list(x)
    if isinstance(x, (list, tuple)) and sym.contains_sym(x):
        r = start
        for v in x:
            r = r + (wrap(sym.as_int_term(v)) if isinstance(v, SBool) else v)
        return r
    if isinstance(x, Sym):
        raise OutOfReach("sum over symbolic-length iterable (use a spec function)")
    return NotImplemented


@model(builtins.print)
def m_print(interp, args, kwargs):
    return None


@model(typing.cast)
def m_cast(interp, args, kwargs):
    return args[1]


@model(itertools.chain)
def m_chain(interp, args, kwargs):
    if any(isinstance(a, SGen) for a in args):
        parts = []
        for a in args:
            if isinstance(a, SGen):
                parts.extend(a.parts)
            else:
                a = list(a)
                if a:
                    raise OutOfReach("chain of symbolic and non-empty concrete generators")
        return SGen(parts)
    if any(type(a).__name__ == "LazyGen" for a in args):
        return itertools.chain(*[list(a) for a in args])
    return NotImplemented


@model(builtins.sorted)
def m_sorted(interp, args, kwargs):
    if isinstance(args[0], Sym):
        raise OutOfReach("sorted() of symbolic-length value")
    if type(args[0]).__name__ == "LazyGen":
        return sorted(list(args[0]), **kwargs)
    return NotImplemented


@model(builtins.set, builtins.frozenset)
def m_set(interp, args, kwargs):
    if args and isinstance(args[0], SSet):
        return args[0]
    if args and isinstance(args[0], Sym):
        raise OutOfReach("set() of symbolic sequence")
    if args and type(args[0]).__name__ == "LazyGen":
        return set(list(args[0]))
    return NotImplemented


@model(builtins.dict)
def m_dict(interp, args, kwargs):
    if args and isinstance(args[0], SMap):
        return args[0].copy()
    if args and type(args[0]).__name__ == "LazyGen":
        return dict(list(args[0]), **kwargs)
    return NotImplemented
